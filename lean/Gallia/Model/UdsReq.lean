import Gallia.Lib.Bytes
/-
  C01 — UDS request codec: the ISO 14229-1 request layout (`encode`), the dynamic parser (`decode`:
  registry dispatch, length gates from the registry, structural checks, raw fallback) and construction
  with range checks (`mk`).  This model is the *oracle* the property names (the ISO layout), not a
  transcription of gallia's `pdu` properties; a disagreement with the code on an input is a violation.

  Shared byte-level request / addressAndLengthFormatIdentifier helpers live here as well.
  Core Lean only (linked into the `c01` driver).
-/
namespace Gallia.UdsReq
open Gallia

/-! ### byte helpers -/

def u8 (n : Nat) : UInt8 := UInt8.ofNat n

/-- the sub-function byte: `subFunction + 0x80 * suppressPosRspMsgIndicationBit` -/
def sfByte (sf : Nat) (sup : Bool) : UInt8 := UInt8.ofNat (sf + (if sup then 128 else 0))

def sfOf (b : UInt8) : Nat := b.toNat % 128
def supOf (b : UInt8) : Bool := decide (128 ≤ b.toNat)

set_option linter.unusedVariables false in
/-- cut a byte string into records of `k` bytes; `none` when it does not divide -/
def chunksOf (k : Nat) (bs : Bytes) : Option (List Bytes) :=
  if h : bs = [] then some []
  else if h2 : k = 0 ∨ bs.length < k then none
  else (chunksOf k (bs.drop k)).map (bs.take k :: ·)
termination_by bs.length
decreasing_by
  have : 0 < bs.length := List.length_pos_iff.mpr h
  simp only [List.length_drop]; omega

/-! ### addressAndLengthFormatIdentifier (low nibble: address bytes, high nibble: size bytes) -/

def alLen (alfid : Nat) : Nat := alfid % 16
def slLen (alfid : Nat) : Nat := alfid / 16

/-- format byte is a byte and both nibbles are non-zero (`address_and_size_length`) -/
def AlfidOk (alfid : Nat) : Prop := alfid < 256 ∧ 0 < alfid % 16 ∧ 0 < alfid / 16
instance (a : Nat) : Decidable (AlfidOk a) := by unfold AlfidOk; infer_instance

/-- address and size fit the widths the format byte announces -/
def Fits (alfid addr size : Nat) : Prop := addr < 256 ^ alLen alfid ∧ size < 256 ^ slLen alfid
instance (a b c : Nat) : Decidable (Fits a b c) := by unfold Fits; infer_instance

def encAddrSize (alfid : Nat) (g : Nat × Nat) : Bytes := toBE g.1 (alLen alfid) ++ toBE g.2 (slLen alfid)

/-- read one address/size group from exactly `alLen + slLen` bytes -/
def decAddrSize (alfid : Nat) (c : Bytes) : Nat × Nat := (fromBE (c.take (alLen alfid)), fromBE (c.drop (alLen alfid)))

/-- minimal number of bytes that hold `n` (`max(1, ceil(bit_length / 8))`) -/
def minBytes (n : Nat) : Nat := if n < 256 then 1 else minBytes (n / 256) + 1

/-- `uds_memory_parameters` without an explicit format: minimal widths -/
def alfidOf (addr size : Nat) : Nat := minBytes size * 16 + minBytes addr

/-! ### the request kinds -/

inductive Req where
  | dsc (ty : Nat) (sup : Bool)
  | ecuReset (ty : Nat) (sup : Bool)
  | requestSeed (lvl : Nat) (rec : Bytes) (sup : Bool)
  | sendKey (lvl : Nat) (key : Bytes) (sup : Bool)
  | commCtrl (ct comm : Nat) (sup : Bool)
  | testerPresent (sup : Bool)
  | controlDTC (ty : Nat) (rec : Bytes) (sup : Bool)
  | rdbi (dids : List Nat)
  | rmba (addr size alfid : Nat)
  | defineById (ddid : Nat) (groups : List (Nat × Nat × Nat)) (sup : Bool)   -- (source did, position, size)
  | defineByMem (ddid alfid : Nat) (groups : List (Nat × Nat)) (sup : Bool) -- (address, size)
  | clearDDDI (ddid : Option Nat) (sup : Bool)
  | wdbi (did : Nat) (rec : Bytes)
  | wmba (addr size alfid : Nat) (rec : Bytes)
  | clearDTC (group : Nat)
  | dtcByMask (sf mask : Nat) (sup : Bool)            -- the 6 ReadDTCInformation kinds that carry a status mask
  | dtcPlain (sf : Nat) (sup : Bool)                  -- the 6 kinds without parameters
  | dtcExtByNumber (dtc recno : Nat) (sup : Bool)
  | iocbi (did : Nat) (opt mask : Bytes)
  | routine (sf rid : Nat) (rec : Bytes) (sup : Bool) -- start / stop / requestResults
  | reqDownload (addr size comp enc alfid : Nat)
  | reqUpload (addr size comp enc alfid : Nat)
  | transferData (ctr : Nat) (rec : Bytes)
  | transferExit (rec : Bytes)
  | raw (b : Bytes)
  deriving DecidableEq, Repr

inductive Kind where
  | raw | dsc | ecuReset | requestSeed | sendKey | commCtrl | testerPresent | controlDTC | rdbi | rmba
  | defineById | defineByMem | clearDDDI | wdbi | wmba | clearDTC | dtcByMask | dtcPlain | dtcExtByNumber
  | iocbi | routine | reqDownload | reqUpload | transferData | transferExit
  deriving DecidableEq, Repr

/-- one request class of the service registry -/
structure RegEntry where
  kind : Kind
  sid : Option Nat
  sf : Option Nat
  minLen : Nat
  maxLen : Option Nat
  deriving DecidableEq, Repr

/-- sub-functions of ReadDTCInformation with a DTCStatusMask / without parameters, RoutineControl -/
def dtcMaskSfs : List Nat := [0x01, 0x02, 0x0F, 0x11, 0x12, 0x13]
def dtcPlainSfs : List Nat := [0x0A, 0x0B, 0x0C, 0x0D, 0x0E, 0x15]
def routineSfs : List Nat := [1, 2, 3]

/-- the registry as the model has it (ordered by service id, sub-function); `Proofs/C01.lean` proves it equal to
    the table generated from the live `UDSService._SERVICES` -/
def requestRegistry : List RegEntry := [
  ⟨.raw, none, none, 1, none⟩,
  ⟨.dsc, some 0x10, none, 2, some 2⟩,
  ⟨.ecuReset, some 0x11, none, 2, some 2⟩,
  ⟨.clearDTC, some 0x14, none, 4, some 4⟩,
  ⟨.dtcByMask, some 0x19, some 0x01, 3, some 3⟩,
  ⟨.dtcByMask, some 0x19, some 0x02, 3, some 3⟩,
  ⟨.dtcExtByNumber, some 0x19, some 0x06, 6, some 6⟩,
  ⟨.dtcPlain, some 0x19, some 0x0A, 2, some 2⟩,
  ⟨.dtcPlain, some 0x19, some 0x0B, 2, some 2⟩,
  ⟨.dtcPlain, some 0x19, some 0x0C, 2, some 2⟩,
  ⟨.dtcPlain, some 0x19, some 0x0D, 2, some 2⟩,
  ⟨.dtcPlain, some 0x19, some 0x0E, 2, some 2⟩,
  ⟨.dtcByMask, some 0x19, some 0x0F, 3, some 3⟩,
  ⟨.dtcByMask, some 0x19, some 0x11, 3, some 3⟩,
  ⟨.dtcByMask, some 0x19, some 0x12, 3, some 3⟩,
  ⟨.dtcByMask, some 0x19, some 0x13, 3, some 3⟩,
  ⟨.dtcPlain, some 0x19, some 0x15, 2, some 2⟩,
  ⟨.rdbi, some 0x22, none, 3, none⟩,
  ⟨.rmba, some 0x23, none, 4, some 32⟩,
  ⟨.requestSeed, some 0x27, none, 2, none⟩,
  ⟨.sendKey, some 0x27, none, 3, none⟩,
  ⟨.commCtrl, some 0x28, none, 3, some 3⟩,
  ⟨.defineById, some 0x2C, some 1, 8, none⟩,
  ⟨.defineByMem, some 0x2C, some 2, 7, none⟩,
  ⟨.clearDDDI, some 0x2C, some 3, 2, some 4⟩,
  ⟨.wdbi, some 0x2E, none, 4, none⟩,
  ⟨.iocbi, some 0x2F, none, 4, none⟩,
  ⟨.routine, some 0x31, some 1, 4, none⟩,
  ⟨.routine, some 0x31, some 2, 4, none⟩,
  ⟨.routine, some 0x31, some 3, 4, none⟩,
  ⟨.reqDownload, some 0x34, none, 4, none⟩,
  ⟨.reqUpload, some 0x35, none, 4, none⟩,
  ⟨.transferData, some 0x36, none, 2, none⟩,
  ⟨.transferExit, some 0x37, none, 1, none⟩,
  ⟨.wmba, some 0x3D, none, 5, none⟩,
  ⟨.testerPresent, some 0x3E, some 0, 2, some 2⟩,
  ⟨.controlDTC, some 0x85, none, 2, none⟩ ]

/-- InputOutputControlByIdentifier convenience classes: (inputOutputControlParameter, minimal length) -/
def iocbiConvenience : List (Nat × Nat) := [(0, 4), (1, 4), (2, 4), (3, 5)]

def regLookup (k : Kind) (sf : Option Nat) : Option RegEntry :=
  requestRegistry.find? (fun e => e.kind = k ∧ e.sf = sf)

/-- registry key of a request: its kind and the class-level sub-function id -/
def keyOf : Req → Kind × Option Nat
  | .dsc .. => (.dsc, none) | .ecuReset .. => (.ecuReset, none) | .requestSeed .. => (.requestSeed, none)
  | .sendKey .. => (.sendKey, none) | .commCtrl .. => (.commCtrl, none) | .testerPresent .. => (.testerPresent, some 0)
  | .controlDTC .. => (.controlDTC, none) | .rdbi .. => (.rdbi, none) | .rmba .. => (.rmba, none)
  | .defineById .. => (.defineById, some 1) | .defineByMem .. => (.defineByMem, some 2)
  | .clearDDDI .. => (.clearDDDI, some 3) | .wdbi .. => (.wdbi, none) | .wmba .. => (.wmba, none)
  | .clearDTC .. => (.clearDTC, none) | .dtcByMask sf .. => (.dtcByMask, some sf) | .dtcPlain sf .. => (.dtcPlain, some sf)
  | .dtcExtByNumber .. => (.dtcExtByNumber, some 6) | .iocbi .. => (.iocbi, none) | .routine sf .. => (.routine, some sf)
  | .reqDownload .. => (.reqDownload, none) | .reqUpload .. => (.reqUpload, none)
  | .transferData .. => (.transferData, none) | .transferExit .. => (.transferExit, none) | .raw .. => (.raw, none)

def Req.isRaw : Req → Bool
  | .raw _ => true
  | _ => false

/-- documented range of every field -/
def Req.WF : Req → Prop
  | .dsc ty _ => ty < 128
  | .ecuReset ty _ => ty < 128
  | .requestSeed lvl _ _ => lvl < 128 ∧ lvl % 2 = 1
  | .sendKey lvl key _ => lvl < 128 ∧ lvl % 2 = 0 ∧ key ≠ []
  | .commCtrl ct comm _ => ct < 128 ∧ comm < 256
  | .testerPresent _ => True
  | .controlDTC ty _ _ => ty < 128
  | .rdbi dids => dids ≠ [] ∧ ∀ d ∈ dids, d < 65536
  | .rmba addr size alfid => AlfidOk alfid ∧ Fits alfid addr size
  | .defineById ddid groups _ => ddid < 65536 ∧ groups ≠ [] ∧ ∀ g ∈ groups, g.1 < 65536 ∧ g.2.1 < 256 ∧ g.2.2 < 256
  | .defineByMem ddid alfid groups _ => ddid < 65536 ∧ AlfidOk alfid ∧ groups ≠ [] ∧ ∀ g ∈ groups, Fits alfid g.1 g.2
  | .clearDDDI ddid _ => ∀ d, ddid = some d → d < 65536
  | .wdbi did rec => did < 65536 ∧ rec ≠ []
  | .wmba addr size alfid rec => AlfidOk alfid ∧ Fits alfid addr size ∧ rec ≠ []
  | .clearDTC g => g < 256 ^ 3
  | .dtcByMask sf mask _ => sf ∈ dtcMaskSfs ∧ mask < 256
  | .dtcPlain sf _ => sf ∈ dtcPlainSfs
  | .dtcExtByNumber dtc recno _ => dtc < 256 ^ 3 ∧ recno < 256
  | .iocbi did opt _ => did < 65536 ∧ opt ≠ []
  | .routine sf rid _ _ => sf ∈ routineSfs ∧ rid < 65536
  | .reqDownload addr size comp enc alfid => comp < 16 ∧ enc < 16 ∧ AlfidOk alfid ∧ Fits alfid addr size
  | .reqUpload addr size comp enc alfid => comp < 16 ∧ enc < 16 ∧ AlfidOk alfid ∧ Fits alfid addr size
  | .transferData ctr _ => ctr < 256
  | .transferExit _ => True
  | .raw _ => True

instance : DecidablePred Req.WF := fun r => by
  cases r <;> unfold Req.WF <;> infer_instance

/-! ### ISO 14229-1 request layout -/

def encIdGroup (g : Nat × Nat × Nat) : Bytes := toBE g.1 2 ++ [u8 g.2.1, u8 g.2.2]

def encode : Req → Bytes
  | .dsc ty sup => [0x10, sfByte ty sup]
  | .ecuReset ty sup => [0x11, sfByte ty sup]
  | .requestSeed lvl rec sup => [0x27, sfByte lvl sup] ++ rec
  | .sendKey lvl key sup => [0x27, sfByte lvl sup] ++ key
  | .commCtrl ct comm sup => [0x28, sfByte ct sup, u8 comm]
  | .testerPresent sup => [0x3E, sfByte 0 sup]
  | .controlDTC ty rec sup => [0x85, sfByte ty sup] ++ rec
  | .rdbi dids => 0x22 :: (dids.map (toBE · 2)).flatten
  | .rmba addr size alfid => [0x23, u8 alfid] ++ encAddrSize alfid (addr, size)
  | .defineById ddid groups sup => [0x2C, sfByte 1 sup] ++ toBE ddid 2 ++ (groups.map encIdGroup).flatten
  | .defineByMem ddid alfid groups sup =>
      [0x2C, sfByte 2 sup] ++ toBE ddid 2 ++ u8 alfid :: (groups.map (encAddrSize alfid)).flatten
  | .clearDDDI none sup => [0x2C, sfByte 3 sup]
  | .clearDDDI (some d) sup => [0x2C, sfByte 3 sup] ++ toBE d 2
  | .wdbi did rec => 0x2E :: toBE did 2 ++ rec
  | .wmba addr size alfid rec => [0x3D, u8 alfid] ++ encAddrSize alfid (addr, size) ++ rec
  | .clearDTC g => 0x14 :: toBE g 3
  | .dtcByMask sf mask sup => [0x19, sfByte sf sup, u8 mask]
  | .dtcPlain sf sup => [0x19, sfByte sf sup]
  | .dtcExtByNumber dtc recno sup => [0x19, sfByte 6 sup] ++ toBE dtc 3 ++ [u8 recno]
  | .iocbi did opt mask => 0x2F :: toBE did 2 ++ opt ++ mask
  | .routine sf rid rec sup => [0x31, sfByte sf sup] ++ toBE rid 2 ++ rec
  | .reqDownload addr size comp enc alfid => [0x34, u8 (comp * 16 + enc), u8 alfid] ++ encAddrSize alfid (addr, size)
  | .reqUpload addr size comp enc alfid => [0x35, u8 (comp * 16 + enc), u8 alfid] ++ encAddrSize alfid (addr, size)
  | .transferData ctr rec => [0x36, u8 ctr] ++ rec
  | .transferExit rec => 0x37 :: rec
  | .raw b => b

/-- two adjacent variable-length records without a length field cannot be separated by any parser:
    the parser returns their concatenation as the controlOptionRecord -/
def norm : Req → Req
  | .iocbi did opt mask => .iocbi did (opt ++ mask) []
  | r => r

/-! ### the dynamic parser -/

def decIdGroup (c : Bytes) : Nat × Nat × Nat := (fromBE (c.take 2), (c.getD 2 0).toNat, (c.getD 3 0).toNat)

/-- memory-style body `alfid, address, size, trailing` -/
def parseMem (body : Bytes) : Option (Nat × Nat × Nat × Bytes) :=
  match body with
  | [] => none
  | f :: rest =>
    let alfid := f.toNat
    if alLen alfid = 0 ∨ slLen alfid = 0 ∨ rest.length < alLen alfid + slLen alfid then none
    else
      let g := decAddrSize alfid (rest.take (alLen alfid + slLen alfid))
      some (alfid, g.1, g.2, rest.drop (alLen alfid + slLen alfid))

def parseSub1 (mk : Nat → Bool → Req) : Bytes → Option Req
  | [s] => some (mk (sfOf s) (supOf s))
  | _ => none

def parseSubRec (mk : Nat → Bytes → Bool → Req) : Bytes → Option Req
  | s :: rec => some (mk (sfOf s) rec (supOf s))
  | _ => none

def parseSecurityAccess : Bytes → Option Req
  | s :: rec => if s.toNat % 2 = 1 then some (.requestSeed (sfOf s) rec (supOf s)) else some (.sendKey (sfOf s) rec (supOf s))
  | _ => none

def parseCommCtrl : Bytes → Option Req
  | [s, c] => some (.commCtrl (sfOf s) c.toNat (supOf s))
  | _ => none

def parseTesterPresent : Bytes → Option Req
  | [s] => if sfOf s = 0 then some (.testerPresent (supOf s)) else none
  | _ => none

def parseRdbi (rest : Bytes) : Option Req := (chunksOf 2 rest).map (fun cs => .rdbi (cs.map fromBE))

def parseRmba (rest : Bytes) : Option Req :=
  match parseMem rest with
  | some (alfid, a, s, []) => some (.rmba a s alfid)
  | _ => none

def parseWmba (rest : Bytes) : Option Req :=
  match parseMem rest with
  | some (alfid, a, s, rec) => if rec = [] then none else some (.wmba a s alfid rec)
  | none => none

def parseUpDown (mk : Nat → Nat → Nat → Nat → Nat → Req) : Bytes → Option Req
  | dfi :: rest =>
    match parseMem rest with
    | some (alfid, a, s, []) => some (mk a s (dfi.toNat / 16) (dfi.toNat % 16) alfid)
    | _ => none
  | _ => none

def parseDDDI : Bytes → Option Req
  | s :: rest =>
    if sfOf s = 1 then
      match rest with
      | a :: b :: gs => (chunksOf 4 gs).map (fun cs => .defineById (fromBE [a, b]) (cs.map decIdGroup) (supOf s))
      | _ => none
    else if sfOf s = 2 then
      match rest with
      | a :: b :: f :: gs =>
        if alLen f.toNat = 0 ∨ slLen f.toNat = 0 then none
        else (chunksOf (alLen f.toNat + slLen f.toNat) gs).map
          (fun cs => .defineByMem (fromBE [a, b]) f.toNat (cs.map (decAddrSize f.toNat)) (supOf s))
      | _ => none
    else if sfOf s = 3 then
      match rest with
      | [] => some (.clearDDDI none (supOf s))
      | [a, b] => some (.clearDDDI (some (fromBE [a, b])) (supOf s))
      | _ => none
    else none
  | _ => none

def parseWdbi : Bytes → Option Req
  | a :: b :: rec => some (.wdbi (fromBE [a, b]) rec)
  | _ => none

def parseClearDTC : Bytes → Option Req
  | [a, b, c] => some (.clearDTC (fromBE [a, b, c]))
  | _ => none

def parseReadDTC : Bytes → Option Req
  | s :: rest =>
    if sfOf s ∈ dtcMaskSfs then
      match rest with
      | [m] => some (.dtcByMask (sfOf s) m.toNat (supOf s))
      | _ => none
    else if sfOf s ∈ dtcPlainSfs then
      match rest with
      | [] => some (.dtcPlain (sfOf s) (supOf s))
      | _ => none
    else if sfOf s = 6 then
      match rest with
      | [a, b, c, n] => some (.dtcExtByNumber (fromBE [a, b, c]) n.toNat (supOf s))
      | _ => none
    else none
  | _ => none

def parseIocbi : Bytes → Option Req
  | a :: b :: opt => some (.iocbi (fromBE [a, b]) opt [])
  | _ => none

def parseRoutine : Bytes → Option Req
  | s :: a :: b :: rec => if sfOf s ∈ routineSfs then some (.routine (sfOf s) (fromBE [a, b]) rec (supOf s)) else none
  | _ => none

def parseTransferData : Bytes → Option Req
  | c :: rec => some (.transferData c.toNat rec)
  | _ => none

/-- structural parse by service id (dispatch as `UDSService._SERVICES` / `_sub_function_type`) -/
def parseTyped : Bytes → Option Req
  | [] => none
  | sid :: rest =>
    if sid = 0x10 then parseSub1 .dsc rest
    else if sid = 0x11 then parseSub1 .ecuReset rest
    else if sid = 0x27 then parseSecurityAccess rest
    else if sid = 0x28 then parseCommCtrl rest
    else if sid = 0x3E then parseTesterPresent rest
    else if sid = 0x85 then parseSubRec .controlDTC rest
    else if sid = 0x22 then parseRdbi rest
    else if sid = 0x23 then parseRmba rest
    else if sid = 0x2C then parseDDDI rest
    else if sid = 0x2E then parseWdbi rest
    else if sid = 0x3D then parseWmba rest
    else if sid = 0x14 then parseClearDTC rest
    else if sid = 0x19 then parseReadDTC rest
    else if sid = 0x2F then parseIocbi rest
    else if sid = 0x31 then parseRoutine rest
    else if sid = 0x34 then parseUpDown .reqDownload rest
    else if sid = 0x35 then parseUpDown .reqUpload rest
    else if sid = 0x36 then parseTransferData rest
    else if sid = 0x37 then some (.transferExit rest)
    else none

/-- the length gate of the registry entry of a request's class (`UDSRequest._check_pdu`) -/
def gate (r : Req) (n : Nat) : Bool :=
  match regLookup (keyOf r).1 (keyOf r).2 with
  | some e => decide (e.minLen ≤ n) && (match e.maxLen with | none => true | some m => decide (n ≤ m))
  | none => false

/-- `UDSRequest.parse_dynamic`: typed request when the bytes are a well-formed request of a registered
    class, opaque raw request otherwise -/
def decode (b : Bytes) : Req :=
  match parseTyped b with
  | some r => if gate r b.length then r else .raw b
  | none => .raw b

/-! ### construction with range checks -/

/-- constructor arguments as a user may pass them (any integer, optional format byte, parallel lists) -/
inductive Args where
  | dsc (ty : Int) (sup : Bool)
  | ecuReset (ty : Int) (sup : Bool)
  | requestSeed (lvl : Int) (rec : Bytes) (sup : Bool)
  | sendKey (lvl : Int) (key : Bytes) (sup : Bool)
  | commCtrl (ct comm : Int) (sup : Bool)
  | testerPresent (sup : Bool)
  | controlDTC (ty : Int) (rec : Bytes) (sup : Bool)
  | rdbi (dids : List Int)
  | rmba (addr size : Int) (alfid : Option Int)
  | defineById (ddid : Int) (srcs poss sizes : List Int) (sup : Bool)
  | defineByMem (ddid : Int) (addrs sizes : List Int) (alfid : Option Int) (sup : Bool)
  | clearDDDI (ddid : Option Int) (sup : Bool)
  | wdbi (did : Int) (rec : Bytes)
  | wmba (addr : Int) (rec : Bytes) (size : Option Int) (alfid : Option Int)
  | clearDTC (group : Int)
  | dtcByMask (sf : Nat) (mask : Int) (sup : Bool)
  | dtcPlain (sf : Nat) (sup : Bool)
  | dtcExtByNumber (dtc : Int) (recno : Int) (sup : Bool)
  | dtcExtByNumberB (dtc : Bytes) (recno : Int) (sup : Bool)
  | iocbi (did : Int) (opt mask : Bytes)
  | iocbiConv (param : Nat) (did : Int) (mask : Bytes)     -- returnControlToECU / resetToDefault / freezeCurrentState
  | iocbiShortTerm (did : Int) (states mask : Bytes)
  | routine (sf : Nat) (rid : Int) (rec : Bytes) (sup : Bool)
  | reqDownload (addr size comp enc : Int) (alfid : Option Int)
  | reqUpload (addr size comp enc : Int) (alfid : Option Int)
  | transferData (ctr : Int) (rec : Bytes)
  | transferExit (rec : Bytes)
  | raw (b : Bytes)
  deriving Repr

inductive Err where
  | refused
  deriving DecidableEq, Repr

/-- `lo ≤ x < hi` as a natural number, refusal otherwise -/
def natIn (x : Int) (hi : Nat) : Except Err Nat :=
  if 0 ≤ x ∧ x < (hi : Int) then .ok x.toNat else .error .refused

/-- every element in `0 ≤ x < hi` -/
def natsIn (xs : List Int) (hi : Nat) : Except Err (List Nat) :=
  if ∀ x ∈ xs, 0 ≤ x ∧ x < (hi : Int) then .ok (xs.map Int.toNat) else .error .refused

def require (c : Prop) [Decidable c] : Except Err Unit := if c then .ok () else .error .refused

/-- address, size and optional format byte -> (address, size, format byte) -/
def mkMem (addr size : Int) (alfid : Option Int) : Except Err (Nat × Nat × Nat) := do
  require (0 ≤ addr ∧ 0 ≤ size)
  let a := addr.toNat
  let s := size.toNat
  match alfid with
  | some f =>
    let f ← natIn f 256
    require (AlfidOk f ∧ Fits f a s)
    pure (a, s, f)
  | none =>
    require (minBytes a ≤ 15 ∧ minBytes s ≤ 15)
    pure (a, s, alfidOf a s)

def listMax (xs : List Nat) : Nat := xs.foldl max 0

def mk : Args → Except Err Req
  | .dsc ty sup => do let t ← natIn ty 128; pure (.dsc t sup)
  | .ecuReset ty sup => do let t ← natIn ty 128; pure (.ecuReset t sup)
  | .requestSeed lvl rec sup => do let l ← natIn lvl 128; require (l % 2 = 1); pure (.requestSeed l rec sup)
  | .sendKey lvl key sup => do let l ← natIn lvl 128; require (l % 2 = 0); require (key ≠ []); pure (.sendKey l key sup)
  | .commCtrl ct comm sup => do let c ← natIn ct 128; let m ← natIn comm 256; pure (.commCtrl c m sup)
  | .testerPresent sup => pure (.testerPresent sup)
  | .controlDTC ty rec sup => do let t ← natIn ty 128; pure (.controlDTC t rec sup)
  | .rdbi dids => do require (dids ≠ []); let ds ← natsIn dids 65536; pure (.rdbi ds)
  | .rmba addr size alfid => do let (a, s, f) ← mkMem addr size alfid; pure (.rmba a s f)
  | .defineById ddid srcs poss sizes sup => do
      let d ← natIn ddid 65536
      require (srcs.length = poss.length ∧ srcs.length = sizes.length)
      require (srcs ≠ [])
      let ss ← natsIn srcs 65536
      let ps ← natsIn poss 256
      let ms ← natsIn sizes 256
      pure (.defineById d (ss.zip (ps.zip ms)) sup)
  | .defineByMem ddid addrs sizes alfid sup => do
      let d ← natIn ddid 65536
      require (addrs.length = sizes.length)
      require (addrs ≠ [])
      let as ← natsIn addrs (256 ^ 15)
      let ss ← natsIn sizes (256 ^ 15)
      match alfid with
      | some f =>
        let f ← natIn f 256
        require (AlfidOk f ∧ ∀ g ∈ as.zip ss, Fits f g.1 g.2)
        pure (.defineByMem d f (as.zip ss) sup)
      | none =>
        pure (.defineByMem d (listMax (ss.map minBytes) * 16 + listMax (as.map minBytes)) (as.zip ss) sup)
  | .clearDDDI none sup => pure (.clearDDDI none sup)
  | .clearDDDI (some d) sup => do let d ← natIn d 65536; pure (.clearDDDI (some d) sup)
  | .wdbi did rec => do let d ← natIn did 65536; require (rec ≠ []); pure (.wdbi d rec)
  | .wmba addr rec size alfid => do
      let (a, s, f) ← mkMem addr (size.getD rec.length) alfid
      require (rec ≠ [])
      pure (.wmba a s f rec)
  | .clearDTC g => do let g ← natIn g (256 ^ 3); pure (.clearDTC g)
  | .dtcByMask sf mask sup => do require (sf ∈ dtcMaskSfs); let m ← natIn mask 256; pure (.dtcByMask sf m sup)
  | .dtcPlain sf sup => do require (sf ∈ dtcPlainSfs); pure (.dtcPlain sf sup)
  | .dtcExtByNumber dtc recno sup => do
      let d ← natIn dtc (256 ^ 3); let n ← natIn recno 256; pure (.dtcExtByNumber d n sup)
  | .dtcExtByNumberB dtc recno sup => do
      require (dtc.length = 3); let n ← natIn recno 256; pure (.dtcExtByNumber (fromBE dtc) n sup)
  | .iocbi did opt mask => do let d ← natIn did 65536; require (opt ≠ []); pure (.iocbi d opt mask)
  | .iocbiConv param did mask => do
      require (param < 3); let d ← natIn did 65536; pure (.iocbi d [u8 param] mask)
  | .iocbiShortTerm did states mask => do let d ← natIn did 65536; require (states ≠ []); pure (.iocbi d (3 :: states) mask)
  | .routine sf rid rec sup => do require (sf ∈ routineSfs); let r ← natIn rid 65536; pure (.routine sf r rec sup)
  | .reqDownload addr size comp enc alfid => do
      let c ← natIn comp 16; let e ← natIn enc 16
      let (a, s, f) ← mkMem addr size alfid
      pure (.reqDownload a s c e f)
  | .reqUpload addr size comp enc alfid => do
      let c ← natIn comp 16; let e ← natIn enc 16
      let (a, s, f) ← mkMem addr size alfid
      pure (.reqUpload a s c e f)
  | .transferData ctr rec => do let c ← natIn ctr 256; pure (.transferData c rec)
  | .transferExit rec => pure (.transferExit rec)
  | .raw b => pure (.raw b)

end Gallia.UdsReq
