import Gallia.Model.Client
/-
  C04 (widened) — executable model of `UDSClient.request()` / `request_unsafe` with the transport's `write()` and the
  client's `reconnect_unsafe()` as fallible operations, on top of `Model/Client.lean`.

      async def request(self, request, config):              requestX: acquire, runX, release
          async with self.mutex:
              return await self.request_unsafe(request, config)

      max_retry = config.max_retry if config.max_retry is not None else self.max_retry     resolveX
      timeout   = config.timeout   if config.timeout   is not None else self.timeout       (Option: `None` = no deadline)
      for i in range(max_retry + 1):
          try:
              raw = await self.transport.request_unsafe(pdu, timeout)     BaseTransport.request_unsafe =
                                                                             await self.write(data, timeout)   io.wr i
                                                                             return await self.read(timeout)   io.rd k
          except TimeoutError:    (raised by the write *or* the read)  last = Missing;        sleep if i < max_retry
          except ConnectionError: (raised by the write *or* the read)  last = Missing(cause); sleep, reconnect_unsafe()
                                                                             reconnect_unsafe() may raise:      io.rc m
                                                                             the exception leaves request() as it is
          …                                                            (the rest as in `Client.attempts`)
          max_n_timeout = max(timeout if timeout else 0, 20) / waiting_time       maxNTX (falsy: None and 0)
          … await self._read(timeout=waiting_time) …                              readTmo (`timeout is None and self.timeout`)

  An event script is now three infinite streams (`Script`): what the j-th `write()`, the k-th `read()` and the m-th
  `reconnect_unsafe()` do.  Every attempt performs exactly one `write()`, so the write of attempt `i` is write #i.
  The responsePending loop only reads: it is `Client.pendingLoop` unchanged.
  Core Lean only (linked into the `c04` driver).
-/
namespace Gallia.ClientIO
open Gallia.Client

/-- what the j-th `transport.write()` of a request does -/
inductive WEv
  | ok          -- returns
  | timeout     -- raises TimeoutError
  | connErr     -- raises ConnectionError (reset, broken pipe, …)
deriving DecidableEq, Repr, Inhabited

/-- how `reconnect_unsafe()` fails -/
inductive RcFault
  | connErr     -- ConnectionError (refused, reset, …): `transport.reconnect(None)` re-raises it
  | timeout     -- TimeoutError
  | osErr       -- another OSError (no route to host, …)
deriving DecidableEq, Repr, Inhabited

/-- what the m-th `reconnect_unsafe()` of a request does -/
inductive RcEv
  | ok
  | fail (e : RcFault)
deriving DecidableEq, Repr, Inhabited

/-- an event script over the widened alphabet -/
structure Script where
  wr : Nat → WEv
  rd : Nat → Ev
  rc : Nat → RcEv

/-- a script of the old alphabet: reads only, `write()` and `reconnect_unsafe()` always succeed -/
def Script.ofReads (s : Nat → Ev) : Script := ⟨fun _ => .ok, s, fun _ => .ok⟩

/-- no `write()` and no `reconnect_unsafe()` ever fails -/
def Script.Clean (io : Script) : Prop := (∀ j, io.wr j = .ok) ∧ (∀ m, io.rc m = .ok)

/-- how one request ends: as before, or with the exception of a failed `reconnect_unsafe()` #m -/
inductive OutX
  | base (o : Out)
  | reconnectFailed (m : Nat) (e : RcFault)
deriving DecidableEq, Repr, Inhabited

/-! ### configuration: `None`, `0` and the per-request overrides -/

/-- Python truthiness of `float | None`: `None` and `0` are falsy -/
def truthy : Option Nat → Bool
  | some (_+1) => true
  | _ => false

/-- `timeout if timeout else 0` -/
def orZero (t : Option Nat) : Nat := if truthy t then t.getD 0 else 0

/-- `UDSClient._read`: `if timeout is None and self.timeout: timeout = self.timeout` — the timeout `transport.read` gets -/
def readTmo (selfTimeout arg : Option Nat) : Option Nat :=
  match arg with
  | none => if truthy selfTimeout then selfTimeout else none
  | some t => some t

structure CfgX where
  maxRetry : Nat              -- effective max_retry of this request
  timeout : Option Nat        -- effective timeout of this request (ms); `none` = the transport gets no deadline
  selfTimeout : Option Nat    -- `self.timeout` of the client (only `_read` looks at it)
  lat : Nat                   -- environment: virtual time a read that does not time out takes (ms)
  lim : Limits
deriving Repr

/-- `config.x if config.x is not None else self.x` for `max_retry` and `timeout` -/
def resolveX (clientTimeout : Option Nat) (clientMaxRetry : Nat) (reqTimeout reqMaxRetry : Option Nat)
    (lat : Nat) (lim : Limits) : CfgX :=
  { maxRetry := match reqMaxRetry with | some m => m | none => clientMaxRetry
    timeout := match reqTimeout with | some t => some t | none => clientTimeout
    selfTimeout := clientTimeout, lat, lim }

/-- the configuration of the old model: the request timeout enters the loop as `timeout if timeout else 0` and as
    the duration of a timed-out transport call -/
def CfgX.base (c : CfgX) : Cfg := { maxRetry := c.maxRetry, timeout := orZero c.timeout, lat := c.lat, lim := c.lim }

/-- `max_n_timeout = max(timeout if timeout else 0, 20) / waiting_time` (ceiling, as in `Client.maxNT`) -/
def maxNTX (c : CfgX) : Nat := (max (orZero c.timeout) c.lim.floor + c.lim.waiting - 1) / c.lim.waiting

/-- virtual time a transport call takes that raises TimeoutError: its deadline; a transport that raises TimeoutError
    without having been given a deadline does so on its own account, charged 0 -/
def tmoDur (t : Option Nat) : Nat := orZero t

def waitX (c : CfgX) (i : Nat) : Nat := c.lim.retryWait * c.lim.base ^ i

/-! ### actions -/

inductive OpX
  | wr (tmo : Option Nat) (res : WEv) (dur : Nat)   -- transport.write(request.pdu, timeout = tmo)
  | rd (k : Nat) (tmo : Option Nat) (dur : Nat)     -- k-th transport.read(timeout = tmo), returned / raised after dur
  | sl (d : Nat)                                    -- asyncio.sleep(d)
  | rc (res : RcEv)                                 -- reconnect_unsafe()
deriving DecidableEq, Repr

/-- a poll of the responsePending loop goes through `self._read(timeout=waiting_time)` -/
def liftPend (c : CfgX) : Op → OpX
  | .wr => .wr c.timeout .ok 0     -- (the pending loop never writes, sleeps or reconnects: `pend_facts`)
  | .rd k t d => .rd k (readTmo c.selfTimeout (some t)) d
  | .sl d => .sl d
  | .rc => .rc .ok

/-- what one pass through the body of `for i in range(max_retry + 1)` leads to -/
inductive StepX
  | fin (o : OutX) (t : List OpX)                   -- `return` / an exception leaves request_unsafe
  | next (t : List OpX) (k m : Nat) (last : Out)    -- `continue` (or `break` out of the pending loop): next attempt
deriving Repr

/-- the except clauses: a TimeoutError (`reconnect = false`) or a ConnectionError (`reconnect = true`) was raised in
    attempt `i` after the actions `t`; `k` next read, `m` next reconnect -/
def faultX (c : CfgX) (io : Script) (i k m : Nat) (reconnect : Bool) (t : List OpX) : StepX :=
  if i < c.maxRetry then
    if reconnect then
      match io.rc m with
      | .ok => .next (t ++ [.sl (waitX c i), .rc .ok]) k (m+1) (.missing true)
      | .fail e => .fin (.reconnectFailed m e) (t ++ [.sl (waitX c i), .rc (.fail e)])
    else .next (t ++ [.sl (waitX c i)]) k m (.missing false)
  else .next t k m (.missing reconnect)

/-- the body of `for i in range(max_retry + 1)`: attempt `i`, `k` next read, `m` next reconnect -/
def attemptStepX (c : CfgX) (io : Script) (i k m : Nat) (last : Out) : StepX :=
  match io.wr i with
  | .timeout => faultX c io i k m false [.wr c.timeout .timeout (tmoDur c.timeout)]
  | .connErr => faultX c io i k m true [.wr c.timeout .connErr 0]
  | .ok =>
    match io.rd k with
    | .timeout => faultX c io i (k+1) m false [.wr c.timeout .ok 0, .rd k c.timeout (tmoDur c.timeout)]
    | .connErr | .empty => faultX c io i (k+1) m true [.wr c.timeout .ok 0, .rd k c.timeout c.lat]
    | .busy =>
      if c.maxRetry ≤ i then .fin (.base (.reply k)) [.wr c.timeout .ok 0, .rd k c.timeout c.lat]
      else .next [.wr c.timeout .ok 0, .rd k c.timeout c.lat, .sl (waitX c i)] (k+1) m last
    | .mismatch | .malformed => .fin (.base (.illegal k)) [.wr c.timeout .ok 0, .rd k c.timeout c.lat]
    | .negFinal | .posFinal => .fin (.base (.reply k)) [.wr c.timeout .ok 0, .rd k c.timeout c.lat]
    | .pending =>
      match pendingLoop c.base io.rd (k+1) 1 0 with
      | (.done o, t) => .fin (.base o) (.wr c.timeout .ok 0 :: .rd k c.timeout c.lat :: t.map (liftPend c))
      | (.silence k', t) =>
        .next (.wr c.timeout .ok 0 :: .rd k c.timeout c.lat :: t.map (liftPend c)) k' m (.missing false)
      | (.lost k', t) =>
        faultX c io i k' m true (.wr c.timeout .ok 0 :: .rd k c.timeout c.lat :: t.map (liftPend c))

def preX (t : List OpX) (r : OutX × List OpX) : OutX × List OpX := (r.1, t ++ r.2)

/-- the `for i in range(max_retry + 1)` loop from attempt `i` on -/
def attemptsX (c : CfgX) (io : Script) (i k m : Nat) (last : Out) : OutX × List OpX :=
  if _h : c.maxRetry < i then (.base last, [])   -- loop exhausted: `raise last_exception`
  else
    match attemptStepX c io i k m last with
    | .fin o t => (o, t)
    | .next t k' m' l => preX t (attemptsX c io (i+1) k' m' l)
termination_by c.maxRetry + 1 - i
decreasing_by omega

structure ResX where
  out : OutX
  trace : List OpX
deriving Repr

/-- one `request_unsafe` call -/
def runX (c : CfgX) (io : Script) : ResX :=
  let r := attemptsX c io 0 0 0 (.missing false)
  ⟨r.1, r.2⟩

/-! ### `UDSClient.request()`: the mutex around `request_unsafe` -/

inductive ReqOp
  | acquire          -- `async with self.mutex` entered
  | io (o : OpX)
  | release          -- … left (normally or by the exception that ends the request)
deriving DecidableEq, Repr

structure ReqRes where
  out : OutX
  trace : List ReqOp
deriving Repr

/-- `request()` → `_request()`: `async with self.mutex: return await self.request_unsafe(request, config)` -/
def requestX (c : CfgX) (io : Script) : ReqRes :=
  let r := runX c io
  ⟨r.out, .acquire :: (r.trace.map .io ++ [.release])⟩

/-! ### observables derived from the trace -/

def OpX.isWr : OpX → Bool | .wr .. => true | _ => false
def OpX.isWrOk : OpX → Bool | .wr _ .ok _ => true | _ => false
def OpX.isRd : OpX → Bool | .rd .. => true | _ => false
def OpX.isRc : OpX → Bool | .rc _ => true | _ => false
def OpX.isRcOk : OpX → Bool | .rc .ok => true | _ => false
def OpX.dur : OpX → Nat | .wr _ _ d => d | .rd _ _ d => d | .sl d => d | .rc _ => 0
def OpX.sleep? : OpX → Option Nat | .sl d => some d | _ => none

/-- write attempts, failed ones included -/
def nWritesX (t : List OpX) : Nat := t.countP OpX.isWr
/-- writes that put the request on the wire -/
def nWritesOkX (t : List OpX) : Nat := t.countP OpX.isWrOk
def nReadsX (t : List OpX) : Nat := t.countP OpX.isRd
def nReconnectsX (t : List OpX) : Nat := t.countP OpX.isRc
def elapsedOfX (t : List OpX) : Nat := (t.map OpX.dur).sum
def sleepsOfX (t : List OpX) : List Nat := t.filterMap OpX.sleep?

def ResX.writes (r : ResX) : Nat := nWritesX r.trace
def ResX.writesOk (r : ResX) : Nat := nWritesOkX r.trace
def ResX.reads (r : ResX) : Nat := nReadsX r.trace
def ResX.reconnects (r : ResX) : Nat := nReconnectsX r.trace
def ResX.elapsed (r : ResX) : Nat := elapsedOfX r.trace
def ResX.sleeps (r : ResX) : List Nat := sleepsOfX r.trace

/-- forget what the old alphabet cannot say (which timeout a write got, that write / reconnect succeeded) -/
def OpX.forget : OpX → Op
  | .wr .. => .wr
  | .rd k t d => .rd k (orZero t) d
  | .sl d => .sl d
  | .rc _ => .rc

def OutX.isRcFail : OutX → Bool | .reconnectFailed .. => true | _ => false

/-- failed writes among the writes `i, …, i+n-1` -/
def wrFaultsFrom (io : Script) : Nat → Nat → Nat
  | _, 0 => 0
  | i, n+1 => (if io.wr i = .ok then 0 else 1) + wrFaultsFrom io (i+1) n

end Gallia.ClientIO
