import Gallia.Model.Doip
/-
  C06 — one DoIP connection as a small-step system over *whole executions*
  (`src/gallia/transports/doip.py`: `DoIPConnection`, `DoIPTransport.read / write / close`).

  `Model/Doip.lean` describes one client call at a time (the frames arriving during the call are an argument of the
  call).  Here the connection is a state machine and an execution is an arbitrary list of events (`Op`):

    feed chunk        bytes arrive from the gateway (any segmentation: the chunk is appended to the receive buffer,
                      framing is the `Framing` instance `doipCutter`)
    activate / write / read
                      the client task starts `write_routing_activation_request`, `DoIPTransport.write`,
                      `DoIPTransport.read`, each with the caller's timeout (`none` = no timeout)
    close             the client task calls `DoIPTransport.close()`
    eof               the stream ends (peer closed / reset): the reader task ends and closes the connection
    advance dt        time passes; the timers that become due fire (caller's timeout, 2 s acknowledgement timer,
                      2 s routing activation timer)

  Between two events the asyncio loop runs the reader task and the blocked consumer (`settle`): the reader task parses
  every complete frame in its buffer without suspending, except that it may suspend once after an alive-check reply
  (`drain()`); `yields` says after which frames it does, and every theorem holds for an arbitrary `yields`.

  The blocked consumer keeps the frames it has skipped in a local list (`unexpected_packets`) and puts them back in
  front of the queue whenever its wait ends (`_requeue` in a `finally`).  A consumer woken on a connection that got
  closed meanwhile still receives the frame it was woken with (`Queue.get()` returns it), but `read_frame_unsafe`
  refuses to wait again (`_is_closed`).

  All times are virtual milliseconds.
-/
namespace Gallia.DoipSys
open Gallia Gallia.Framing Gallia.Doip Gallia.DoipFifo

/-- what a client call waits for -/
inductive Want
  | ack (data : Bytes)     -- `write_diag_request` -> `_read_ack(data)`
  | rar                    -- `write_routing_activation_request` -> `_read_routing_activation_response`
  | diag                   -- `read_diag_request_raw`
deriving DecidableEq, Repr

/-- the acceptance test of the wait -/
def Want.pred (c : Cfg) : Want → Frame → Bool
  | .ack d => ackMatch c d
  | .rar => isRar
  | .diag => isDiagFor c

/-- the protocol timer of the wait (`asyncio.wait_for` inside `write_request_raw`) -/
def Want.limit : Want → Option Nat
  | .ack _ => some ackTimeoutMs
  | .rar => some raTimeoutMs
  | .diag => none

/-- the result of the call when `f` is the frame it accepted -/
def Want.result : Want → Frame → OpRes
  | .ack _, .ackNeg _ _ code _ => if code = nackTargetUnreachable then .ok else .nack (nackName code)
  | .ack _, _ => .ok
  | .rar, .rar _ _ code => if code = raSuccess then .ok else .denied (racName code)
  | .rar, _ => .conn
  | .diag, f => .msg f.userData

inductive Client
  | idle
  /-- blocked in `Queue.get()`: what it waits for, the frames it has skipped so far, the absolute deadline of the
      protocol timer and of the caller's timeout -/
  | waiting (w : Want) (sk : List Frame) (proto caller : Option Nat)
deriving DecidableEq, Repr

/-- one completed client call -/
structure Done where
  t : Nat
  w : Want
  res : OpRes
deriving DecidableEq, Repr

/-- what the reader task did, in order (ghost: no transition reads it) -/
inductive Tr
  | rx (i : Item)     -- handled one frame
  | reply             -- wrote an alive-check response
deriving DecidableEq, Repr

structure Sys where
  buf : Bytes := []                 -- received, not yet parsed
  queue : List Frame := []          -- `_read_queue` (without the end-of-stream marker)
  closed : Bool := false            -- `_is_closed`
  out : List (Nat × Bytes) := []    -- writes to the TCP stream with their time
  now : Nat := 0
  client : Client := .idle
  done : List Done := []
  tr : List Tr := []
deriving Repr

/-- the connection mutex is held by a writer waiting for its acknowledgement and by `read_frame` -/
def Sys.mutexHeld (s : Sys) : Bool := s.client != .idle

def Sys.finish (s : Sys) (w : Want) (r : OpRes) : Sys :=
  { s with client := .idle, done := s.done ++ [⟨s.now, w, r⟩] }

/-- the consumer loop on an open connection over what is queued (`Queue.get` does not suspend while items are there):
    take the first accepted frame and put the skipped ones back in front of the rest, or block holding them -/
def scanOpen (c : Cfg) (w : Want) (sk : List Frame) (proto caller : Option Nat) (s : Sys) : Sys :=
  match findSplit (w.pred c) s.queue with
  | some (pre, f, post) => { s with queue := requeueFront (sk ++ pre) post }.finish w (w.result f)
  | none => { s with queue := [], client := .waiting w (sk ++ s.queue) proto caller }

/-- the blocked consumer gets to run -/
def clientRun (c : Cfg) (s : Sys) : Sys :=
  match s.client with
  | .idle => s
  | .waiting w sk proto caller =>
    if s.closed then
      -- woken by the frame at the head of the queue, or by the end-of-stream marker behind everything
      match s.queue with
      | f :: q =>
        if w.pred c f then { s with queue := requeueFront sk q }.finish w (w.result f)
        else { s with queue := requeueFront sk (f :: q) }.finish w .conn
      | [] => { s with queue := sk }.finish w .conn
    else scanOpen c w sk proto caller s

/-- the reader task handles one parsed frame -/
def deliver (c : Cfg) (s : Sys) (raw : Raw) : Sys :=
  match classify raw with
  | .fatal => { s with closed := true, tr := s.tr ++ [.rx .fatal] }
  | .drop => { s with tr := s.tr ++ [.rx .drop] }
  | .alive => { s with out := s.out ++ [(s.now, aliveResp c)], tr := s.tr ++ [.rx .alive, .reply] }
  | .q f => { s with queue := s.queue ++ [f], tr := s.tr ++ [.rx (.q f)] }

theorem clientRun_buf (c : Cfg) (s : Sys) : (clientRun c s).buf = s.buf := by
  unfold clientRun scanOpen Sys.finish
  split
  · rfl
  · split
    · split
      · split <;> rfl
      · rfl
    · split <;> rfl

theorem deliver_buf (c : Cfg) (s : Sys) (raw : Raw) : (deliver c s raw).buf = s.buf := by
  unfold deliver; split <;> rfl

/-- between two events: the reader task parses every complete frame in its buffer; after a frame for which `yields`
    holds the blocked consumer runs before the next frame is parsed; a frame that cannot be unpacked ends the reader
    task, which closes the connection (the consumer is woken); when the reader blocks in `readexactly` the consumer
    runs.  On a closed connection (reader task cancelled) nothing is parsed any more. -/
def settle (c : Cfg) (yields : Raw → Bool) (s : Sys) : Sys :=
  if s.closed then s else
  match h : cut s.buf with
  | none => clientRun c s
  | some (raw, rest) =>
    have hlt : rest.length < s.buf.length := cut_shrinks h
    let s1 := deliver c { s with buf := rest } raw
    if s1.closed then clientRun c s1
    else if yields raw then
      have : (clientRun c s1).buf.length < s.buf.length := by
        rw [clientRun_buf, deliver_buf]; exact hlt
      settle c yields (clientRun c s1)
    else
      have : s1.buf.length < s.buf.length := by rw [deliver_buf]; exact hlt
      settle c yields s1
termination_by s.buf.length

/-- the same loop had the read queue a capacity `cap > 0` (`asyncio.Queue(cap)`), up to the point where the reader
    task suspends: `await put()` waits while `cap` frames are queued, and nothing behind the frame it holds is read
    from the stream any more - in particular no alive-check request - until a consumer takes a frame.  `settle` above
    uses that the queues of doip.py are unbounded (obligation `queues_unbounded` in `Proofs/C06.lean`, regenerated
    from the code on every run): the reader task never waits for a consumer, and the re-queue of skipped frames
    (`put_nowait` in `_requeue`) never fails.  Kept to state the witness `bounded_queue_starves_alive_check`. -/
def settleBounded (cap : Nat) (c : Cfg) (yields : Raw → Bool) (s : Sys) : Sys :=
  if s.closed then s else
  match h : cut s.buf with
  | none => clientRun c s
  | some (raw, rest) =>
    have hlt : rest.length < s.buf.length := cut_shrinks h
    let full := (match classify raw with | .q _ => true | _ => false) && decide (0 < cap ∧ cap ≤ s.queue.length)
    if full then clientRun c s
    else
      let s1 := deliver c { s with buf := rest } raw
      if s1.closed then clientRun c s1
      else if yields raw then
        have : (clientRun c s1).buf.length < s.buf.length := by
          rw [clientRun_buf, deliver_buf]; exact hlt
        settleBounded cap c yields (clientRun c s1)
      else
        have : s1.buf.length < s.buf.length := by rw [deliver_buf]; exact hlt
        settleBounded cap c yields s1
termination_by s.buf.length

/-- which timer of a pending call expires first: (absolute time, is it the caller's).  The caller's timer wins a tie:
    it was armed first. -/
def expiry : Option Nat → Option Nat → Option (Nat × Bool)
  | some a, some ct => if ct ≤ a then some (ct, true) else some (a, false)
  | some a, none => some (a, false)
  | none, some ct => some (ct, true)
  | none, none => none

/-- the timer of the pending call that expires first fires if it is due up to `target`.  Either way the frames skipped
    so far go back in front of the queue (`finally` of the three waits); the protocol timer closes the connection
    (`except TimeoutError: await self.close()`) and surfaces as a connection error, the caller's timer does neither. -/
def fire (s : Sys) (target : Nat) : Sys :=
  match s.client with
  | .idle => s
  | .waiting w sk proto caller =>
    match expiry proto caller with
    | none => s
    | some (d, byCaller) =>
      if d ≤ target then
        { s with now := d, queue := requeueFront sk s.queue, closed := s.closed || !byCaller }.finish w
          (if byCaller then .timeout else .conn)
      else s

inductive Op
  | feed (chunk : Bytes)
  | activate (atype : UInt8) (timeout : Option Nat)
  | write (data : Bytes) (timeout : Option Nat)
  | read (timeout : Option Nat)
  | close
  | eof
  | advance (dt : Nat)
deriving DecidableEq, Repr

/-- a client call that first writes `bytes` (nothing for a read) and then waits for `w`.  One client task: a call
    issued while another one is pending is not part of the model and leaves the state alone. -/
def startCall (c : Cfg) (s : Sys) (w : Want) (bytes : Option Bytes) (timeout : Option Nat) : Sys :=
  match s.client with
  | .waiting .. => s
  | .idle =>
    -- `writer.write` / `drain` on a closed stream raise ConnectionResetError; `read_frame_unsafe` raises ConnectionError
    if s.closed then s.finish w .conn
    else
      let s0 := match bytes with
        | some b => { s with out := s.out ++ [(s.now, b)] }
        | none => s
      scanOpen c w [] (w.limit.map (s.now + ·)) (timeout.map (s.now + ·)) s0

def execOp (c : Cfg) (yields : Raw → Bool) (s : Sys) : Op → Sys
  | .feed chunk => settle c yields { s with buf := s.buf ++ chunk }
  | .activate atype t => startCall c s .rar (some (raReq c atype)) t
  | .write data t => startCall c s (.ack data) (some (diagReq c data)) t
  | .read t => startCall c s .diag none t
  | .close =>
    match s.client with
    | .idle => { s with closed := true }
    | .waiting .. => s
  | .eof => if s.closed then s else clientRun c { s with closed := true }
  | .advance dt => { fire s (s.now + dt) with now := s.now + dt }

def exec (c : Cfg) (yields : Raw → Bool) (s : Sys) (ops : List Op) : Sys := ops.foldl (execOp c yields) s

/-- the two schedules of the real writer: `drain()` returns at once (plain socket, no back-pressure) or suspends once
    (in-memory writer of the harness) after the alive-check reply -/
def asyncioYields (drainYields : Bool) (raw : Raw) : Bool := drainYields && classify raw == .alive

end Gallia.DoipSys
