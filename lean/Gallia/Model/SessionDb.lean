import Gallia.Model.SessionScan
/-
  C09 — the `session_transition` table of gallia's database (`gallia.db.handler.DBHandler`), as far as the session scan
  uses it: rows `(run, destination, steps)`; `insert_session_transition` appends one row for the scan run of the handler
  (`INSERT INTO session_transition VALUES(scan_run, destination, steps)`, no condition); a scan run gets a fresh id
  (`insert_scan_run`: autoincrement primary key of `scan_run`).  A scan with `--db` hands the handler, in this order, one
  row per reported session (`transitions`) and one per session that was identified but not entered (`negReported`).
  Core Lean only (linked into the `c09` driver).
-/
namespace Gallia.SessionScan

structure TRow where
  run : Nat
  dest : Sess
  steps : List Sess
deriving Repr, DecidableEq

abbrev Table := List TRow

/-- `DBHandler.insert_session_transition(destination, steps)` of the handler whose scan run is `run` -/
def insertTransition (t : Table) (run : Nat) (dest : Sess) (steps : List Sess) : Table :=
  t ++ [{ run := run, dest := dest, steps := steps }]

/-- the rows a finished scan hands to the handler, in order -/
def runRows (st : St) : List (Sess × List Sess) :=
  transitions st ++ (negReported st).map (fun r => (r.1, r.2.1))

def storeRows (t : Table) (run : Nat) (rows : List (Sess × List Sess)) : Table :=
  rows.foldl (fun t r => insertTransition t run r.1 r.2) t

/-- `SELECT destination, steps FROM session_transition WHERE run = ?` -/
def rowsOf (t : Table) (run : Nat) : List (Sess × List Sess) :=
  (t.filter (fun r => r.run == run)).map (fun r => (r.dest, r.steps))

/-- `insert_scan_run`: the id of the next scan run is larger than every id in use -/
def nextRun (t : Table) : Nat := t.foldl (fun m r => max m (r.run + 1)) 1

/-- the session scan `c` against the ECU `E` run into the database `t` as scan run `run` -/
def scanIntoDb (c : Cfg) (E : Ecu) (t : Table) (run : Nat) : Table :=
  storeRows t run (runRows (scan c E))

end Gallia.SessionScan
