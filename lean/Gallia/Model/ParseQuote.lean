/-
  C20 — percent-encoding of URI query components, as `TargetURI.from_parts` / `TargetURI.qs` use it:

    urllib.parse.urlencode(args)            -> `quote_plus(str(k)) + '=' + quote_plus(str(v))` joined by `&`
    urllib.parse.quote_plus(s, safe='')     -> UTF-8, always-safe bytes kept, ' ' -> '+', every other byte `%XX` (upper-case hex)
    urllib.parse.parse_qs(query)            -> '+' -> ' ', then `unquote(s, 'utf-8', errors='replace')`
    urllib.parse.unquote(str)               -> every maximal run of ASCII characters is percent-decoded to bytes
                                               (`unquote_to_bytes`: `%` + two hex digits in either case, anything else literal)
                                               and the bytes decoded as UTF-8 with U+FFFD for each ill-formed maximal subpart;
                                               non-ASCII characters of the text pass through
  Strings are `List Char` (`Char` = Unicode scalar value: a Python `str` holding a lone surrogate makes `quote` raise
  `UnicodeEncodeError`, such strings are outside the model), bytes are `List UInt8`.
-/
namespace Gallia.Parse

abbrev Str := List Char

/-! ## UTF-8 -/

/-- `str.encode('utf-8')` of one character -/
def utf8 (c : Char) : List UInt8 :=
  let n := c.toNat
  if n < 0x80 then [UInt8.ofNat n]
  else if n < 0x800 then [UInt8.ofNat (0xC0 + n / 64), UInt8.ofNat (0x80 + n % 64)]
  else if n < 0x10000 then [UInt8.ofNat (0xE0 + n / 4096), UInt8.ofNat (0x80 + n / 64 % 64), UInt8.ofNat (0x80 + n % 64)]
  else [UInt8.ofNat (0xF0 + n / 262144), UInt8.ofNat (0x80 + n / 4096 % 64), UInt8.ofNat (0x80 + n / 64 % 64),
        UInt8.ofNat (0x80 + n % 64)]

def utf8Str (s : Str) : List UInt8 := s.flatMap utf8

def isCont (b : UInt8) : Bool := 0x80 ≤ b.toNat && b.toNat ≤ 0xBF

/-- the second byte a three-byte lead allows (`E0` excludes over-long forms, `ED` excludes surrogates) -/
def second3 (b0 b1 : UInt8) : Bool :=
  if b0.toNat = 0xE0 then 0xA0 ≤ b1.toNat && b1.toNat ≤ 0xBF
  else if b0.toNat = 0xED then 0x80 ≤ b1.toNat && b1.toNat ≤ 0x9F
  else isCont b1

/-- the second byte a four-byte lead allows (`F0` excludes over-long forms, `F4` stops at U+10FFFF) -/
def second4 (b0 b1 : UInt8) : Bool :=
  if b0.toNat = 0xF0 then 0x90 ≤ b1.toNat && b1.toNat ≤ 0xBF
  else if b0.toNat = 0xF4 then 0x80 ≤ b1.toNat && b1.toNat ≤ 0x8F
  else isCont b1

def replCh : Char := Char.ofNat 0xFFFD

/-- `bytes.decode('utf-8', errors='replace')`: one U+FFFD per ill-formed maximal subpart (an invalid lead byte alone; a
    valid prefix of a sequence up to, not including, the byte that cannot continue it; a valid prefix cut off by the end
    of the input) -/
def utf8Dec : List UInt8 → Str
  | [] => []
  | b0 :: r =>
    let n0 := b0.toNat
    if n0 < 0x80 then Char.ofNat n0 :: utf8Dec r
    else if n0 < 0xC2 then replCh :: utf8Dec r
    else if n0 < 0xE0 then
      match r with
      | [] => [replCh]
      | b1 :: r1 =>
        if isCont b1 then Char.ofNat ((n0 - 0xC0) * 64 + (b1.toNat - 0x80)) :: utf8Dec r1
        else replCh :: utf8Dec (b1 :: r1)
    else if n0 < 0xF0 then
      match r with
      | [] => [replCh]
      | b1 :: r1 =>
        if second3 b0 b1 then
          match r1 with
          | [] => [replCh]
          | b2 :: r2 =>
            if isCont b2 then Char.ofNat ((n0 - 0xE0) * 4096 + (b1.toNat - 0x80) * 64 + (b2.toNat - 0x80)) :: utf8Dec r2
            else replCh :: utf8Dec (b2 :: r2)
        else replCh :: utf8Dec (b1 :: r1)
    else if n0 < 0xF5 then
      match r with
      | [] => [replCh]
      | b1 :: r1 =>
        if second4 b0 b1 then
          match r1 with
          | [] => [replCh]
          | b2 :: r2 =>
            if isCont b2 then
              match r2 with
              | [] => [replCh]
              | b3 :: r3 =>
                if isCont b3 then
                  Char.ofNat ((n0 - 0xF0) * 262144 + (b1.toNat - 0x80) * 4096 + (b2.toNat - 0x80) * 64 + (b3.toNat - 0x80))
                    :: utf8Dec r3
                else replCh :: utf8Dec (b3 :: r3)
            else replCh :: utf8Dec (b2 :: r2)
        else replCh :: utf8Dec (b1 :: r1)
    else replCh :: utf8Dec r
termination_by l => l.length
decreasing_by all_goals (simp_wf; try omega)

/-! ## quoting -/

/-- `urllib.parse._ALWAYS_SAFE`: `A-Z a-z 0-9 _ . - ~` -/
def isSafeByte (b : UInt8) : Bool :=
  let n := b.toNat
  (48 ≤ n && n ≤ 57) || (65 ≤ n && n ≤ 90) || (97 ≤ n && n ≤ 122) || n == 45 || n == 46 || n == 95 || n == 126

/-- upper-case hex digit (`'%{:02X}'`) -/
def hexUp (n : Nat) : Char := if n < 10 then Char.ofNat (48 + n) else Char.ofNat (55 + n)

def pctOf (b : UInt8) : Str := ['%', hexUp (b.toNat / 16), hexUp (b.toNat % 16)]

/-- `quote_from_bytes(bs, safe='')` -/
def quoteB : List UInt8 → Str
  | [] => []
  | b :: bs => (if isSafeByte b then [Char.ofNat b.toNat] else pctOf b) ++ quoteB bs

/-- `quote_plus(bs, safe='')`: a space becomes `+` -/
def quotePlusB : List UInt8 → Str
  | [] => []
  | b :: bs => (if b.toNat = 32 then ['+'] else if isSafeByte b then [Char.ofNat b.toNat] else pctOf b) ++ quotePlusB bs

/-- `quote(s, safe='')` / `quote_plus(s, safe='')` of a text -/
def quote (s : Str) : Str := quoteB (utf8Str s)
def quotePlus (s : Str) : Str := quotePlusB (utf8Str s)

/-! ## unquoting -/

/-- hex digit in either case (`urllib.parse._hexdig`) -/
def hexVal (c : Char) : Option Nat :=
  let n := c.toNat
  if 48 ≤ n ∧ n ≤ 57 then some (n - 48)
  else if 97 ≤ n ∧ n ≤ 102 then some (n - 87)
  else if 65 ≤ n ∧ n ≤ 70 then some (n - 55)
  else none

/-- `unquote_to_bytes(text)`: `%XX` is one byte, a `%` not followed by two hex digits stays, every other character
    contributes its UTF-8 bytes -/
def unquoteB : Str → List UInt8
  | [] => []
  | c :: r =>
    if c = '%' then
      match r with
      | a :: b :: r2 =>
        match hexVal a, hexVal b with
        | some x, some y => UInt8.ofNat (x * 16 + y) :: unquoteB r2
        | _, _ => 37 :: unquoteB (a :: b :: r2)
      | [a] => 37 :: unquoteB [a]
      | [] => [37]
    else utf8 c ++ unquoteB r

def isAsciiCh (c : Char) : Bool := c.toNat < 128

/-- decode one collected run of ASCII characters (kept in reverse) -/
def flushRun (pend : Str) : Str := if pend = [] then [] else utf8Dec (unquoteB pend.reverse)

/-- `unquote(text, 'utf-8', 'replace')`: ASCII runs are decoded, other characters pass through -/
def unquoteGo (pend : Str) : Str → Str
  | [] => flushRun pend
  | c :: r => if isAsciiCh c then unquoteGo (c :: pend) r else flushRun pend ++ c :: unquoteGo [] r

def unquote (s : Str) : Str := unquoteGo [] s

def plusToSpace (s : Str) : Str := s.map fun c => if c = '+' then ' ' else c

/-- what `parse_qsl` does to a name or a value -/
def unquotePlus (s : Str) : Str := unquote (plusToSpace s)

end Gallia.Parse
