import Gallia.Model.UdsReq
/-
  C01 (glue) — the service-method layer of `UDSClient` and the request building helpers of `ECU`.

  Two independent descriptions of "which request does a method call denote":

  * `denote : Call → Except Refusal Req` — the *documented* meaning (ISO 14229-1 / the docstrings): one clause per
    method, written by hand: omitted `suppress_response` = no suppression, omitted optional records = empty, omitted
    compression / encryption method = 0, omitted format byte = computed, the convenience methods fix the sub-function
    (inputOutputControlParameter) their name says.
  * `bytesOf : Call → Except Refusal Bytes` — the *code as written*: an interpreter over the tables `sigs` (parameter
    names and defaults of every method), `ctorSites` (which request class a method body constructs and which expression
    it passes for which constructor parameter), `callSites` (which method a helper delegates to, with which arguments)
    and `classSigs` (constructor parameters / defaults / service id / sub-function id of the classes).  These tables are
    regenerated from `inspect.signature` and the AST of client.py / ecu.py on every run (`Gen/C01Api.lean`) and
    `Proofs/C01.lean` proves them equal to the ones below (`api_signature_agrees`, `api_sites_agree`, `api_table_agrees`).

  `Proofs/C01.lean`: `call_bytes : bytesOf c = (denote c).map encode`, and everything that follows from it.
  Core Lean only (linked into the `c01` driver).
-/
namespace Gallia.UdsClientApi
open Gallia Gallia.UdsReq

/-- a refused call: the same refusal as a refused construction -/
abbrev Refusal := Err

/-- `int | Sequence[int]` parameters -/
inductive IntOrList where
  | one (i : Int)
  | many (l : List Int)
  deriving DecidableEq, Repr

def IntOrList.toList : IntOrList → List Int
  | .one i => [i]
  | .many l => l

/-- `bytes | int` parameter (dtc_mask_record) -/
inductive BytesOrInt where
  | bytes (b : Bytes)
  | int (i : Int)
  deriving DecidableEq, Repr

/-- one constructor per public service method of `UDSClient` and per single-request helper of `ECU`; arguments as the
    user passes them: an optional argument is `none` when left out; `Option (Option Int)` = left out / `None` / a value -/
inductive Call where
  | send_raw (pdu : Bytes)
  | diagnostic_session_control (diagnostic_session_type : Int) (suppress_response : Option Bool)
  | ecu_reset (reset_type : Int) (suppress_response : Option Bool)
  | security_access_request_seed (security_access_type : Int) (security_access_data_record : Option Bytes)
      (suppress_response : Option Bool)
  | security_access_send_key (security_access_type : Int) (security_key : Bytes) (suppress_response : Option Bool)
  | communication_control (control_type communication_type : Int) (suppress_response : Option Bool)
  | tester_present (suppress_response : Option Bool)
  | control_dtc_setting (dtc_setting_type : Int) (dtc_setting_control_option_record : Option Bytes)
      (suppress_response : Option Bool)
  | read_data_by_identifier (data_identifiers : IntOrList)
  | read_memory_by_address (memory_address memory_size : Int) (address_and_length_format_identifier : Option (Option Int))
  | write_data_by_identifier (data_identifier : Int) (data_record : Bytes)
  | write_memory_by_address (memory_address : Int) (data_record : Bytes) (memory_size : Option (Option Int))
      (address_and_length_format_identifier : Option (Option Int))
  | clear_diagnostic_information (group_of_dtc : Int)
  | read_dtc_information_report_number_of_dtc_by_status_mask (dtc_status_mask : Int) (suppress_response : Option Bool)
  | read_dtc_information_report_dtc_by_status_mask (dtc_status_mask : Int) (suppress_response : Option Bool)
  | read_dtc_information_report_mirror_memory_dtc_by_status_mask (dtc_status_mask : Int) (suppress_response : Option Bool)
  | read_dtc_information_report_number_of_mirror_memory_dtc_by_status_mask (dtc_status_mask : Int)
      (suppress_response : Option Bool)
  | read_dtc_information_report_number_of_emissions_related_obd_dtc_by_status_mask (dtc_status_mask : Int)
      (suppress_response : Option Bool)
  | read_dtc_information_report_emissions_related_obd_dtc_by_status_mask (dtc_status_mask : Int)
      (suppress_response : Option Bool)
  | report_dtc_extended_data_record_by_dtc_number (dtc_mask_record : BytesOrInt) (dtc_ext_data_record_number : Int)
      (suppress_response : Option Bool)
  | input_output_control_by_identifier (data_identifier : Int) (control_option_record : Bytes)
      (control_enable_mask_record : Option Bytes)
  | input_output_control_by_identifier_return_control_to_ecu (data_identifier : Int) (control_enable_mask_record : Option Bytes)
  | input_output_control_by_identifier_reset_to_default (data_identifier : Int) (control_enable_mask_record : Option Bytes)
  | input_output_control_by_identifier_freeze_current_state (data_identifier : Int) (control_enable_mask_record : Option Bytes)
  | input_output_control_by_identifier_short_term_adjustment (data_identifier : Int) (control_states : Bytes)
      (control_enable_mask_record : Option Bytes)
  | routine_control_start_routine (routine_identifier : Int) (routine_control_option_record : Option Bytes)
      (suppress_response : Option Bool)
  | routine_control_stop_routine (routine_identifier : Int) (routine_control_option_record : Option Bytes)
      (suppress_response : Option Bool)
  | routine_control_request_routine_results (routine_identifier : Int) (routine_control_option_record : Option Bytes)
      (suppress_response : Option Bool)
  | request_download (memory_address memory_size : Int) (compression_method encryption_method : Option Int)
      (address_and_length_format_identifier : Option (Option Int))
  | request_upload (memory_address memory_size : Int) (compression_method encryption_method : Option Int)
      (address_and_length_format_identifier : Option (Option Int))
  | transfer_data (block_sequence_counter : Int) (transfer_request_parameter_record : Option Bytes)
  | request_transfer_exit (transfer_request_parameter_record : Option Bytes)
  | define_by_identifier (dynamically_defined_data_identifier : Int)
      (source_data_identifiers positions_in_source_data_record memory_sizes : IntOrList) (suppress_response : Option Bool)
  | define_by_memory_address (dynamically_defined_data_identifier : Int) (memory_addresses memory_sizes : IntOrList)
      (address_and_length_format_identifier : Option (Option Int)) (suppress_response : Option Bool)
  | clear_dynamically_defined_data_identifier (dynamically_defined_data_identifier : Option Int)
      (suppress_response : Option Bool)
  -- ECU helpers that send one request
  | ping
  | read_session
  | set_session (level : Int) (use_db : Option Bool)
  | read_dtc
  | clear_dtc
  | read_vin
  | refresh_state (reset_state : Option Bool)
  deriving DecidableEq, Repr

/-! ### the documented meaning -/

def optInt (x : Option (Option Int)) : Option Int := x.getD none

/-- ISO 14229-1 ReadDTCInformation sub-functions, by the name the method carries -/
def reportNumberOfDTCByStatusMask : Nat := 0x01
def reportDTCByStatusMask : Nat := 0x02
def reportMirrorMemoryDTCByStatusMask : Nat := 0x0F
def reportNumberOfMirrorMemoryDTCByStatusMask : Nat := 0x11
def reportNumberOfEmissionsOBDDTCByStatusMask : Nat := 0x12
def reportEmissionsOBDDTCByStatusMask : Nat := 0x13
/-- ISO 14229-1 RoutineControl sub-functions -/
def startRoutine : Nat := 1
def stopRoutine : Nat := 2
def requestRoutineResults : Nat := 3
/-- ISO 14229-1 inputOutputControlParameter values -/
def returnControlToECU : Nat := 0
def resetToDefault : Nat := 1
def freezeCurrentState : Nat := 2
/-- ISO 14229-1 data identifiers / parameter values the ECU helpers name -/
def activeDiagnosticSessionDataIdentifier : Int := 0xF186
def vinDataIdentifier : Int := 0xF190
def allDTCStatusMask : Int := 0xFF
def allGroupsOfDTC : Int := 0xFFFFFF

/-- constructor arguments the call stands for: defaults = no suppression, empty optional records, method 0, computed
    format byte / size -/
def argsOf : Call → Args
  | .send_raw pdu => .raw pdu
  | .diagnostic_session_control ty sup => .dsc ty (sup.getD false)
  | .ecu_reset ty sup => .ecuReset ty (sup.getD false)
  | .security_access_request_seed lvl rec sup => .requestSeed lvl (rec.getD []) (sup.getD false)
  | .security_access_send_key lvl key sup => .sendKey lvl key (sup.getD false)
  | .communication_control ct comm sup => .commCtrl ct comm (sup.getD false)
  | .tester_present sup => .testerPresent (sup.getD false)
  | .control_dtc_setting ty rec sup => .controlDTC ty (rec.getD []) (sup.getD false)
  | .read_data_by_identifier dids => .rdbi dids.toList
  | .read_memory_by_address a s f => .rmba a s (optInt f)
  | .write_data_by_identifier d rec => .wdbi d rec
  | .write_memory_by_address a rec s f => .wmba a rec (optInt s) (optInt f)
  | .clear_diagnostic_information g => .clearDTC g
  | .read_dtc_information_report_number_of_dtc_by_status_mask m sup => .dtcByMask reportNumberOfDTCByStatusMask m (sup.getD false)
  | .read_dtc_information_report_dtc_by_status_mask m sup => .dtcByMask reportDTCByStatusMask m (sup.getD false)
  | .read_dtc_information_report_mirror_memory_dtc_by_status_mask m sup =>
      .dtcByMask reportMirrorMemoryDTCByStatusMask m (sup.getD false)
  | .read_dtc_information_report_number_of_mirror_memory_dtc_by_status_mask m sup =>
      .dtcByMask reportNumberOfMirrorMemoryDTCByStatusMask m (sup.getD false)
  | .read_dtc_information_report_number_of_emissions_related_obd_dtc_by_status_mask m sup =>
      .dtcByMask reportNumberOfEmissionsOBDDTCByStatusMask m (sup.getD false)
  | .read_dtc_information_report_emissions_related_obd_dtc_by_status_mask m sup =>
      .dtcByMask reportEmissionsOBDDTCByStatusMask m (sup.getD false)
  | .report_dtc_extended_data_record_by_dtc_number (.int d) n sup => .dtcExtByNumber d n (sup.getD false)
  | .report_dtc_extended_data_record_by_dtc_number (.bytes d) n sup => .dtcExtByNumberB d n (sup.getD false)
  | .input_output_control_by_identifier d opt mask => .iocbi d opt (mask.getD [])
  | .input_output_control_by_identifier_return_control_to_ecu d mask => .iocbiConv returnControlToECU d (mask.getD [])
  | .input_output_control_by_identifier_reset_to_default d mask => .iocbiConv resetToDefault d (mask.getD [])
  | .input_output_control_by_identifier_freeze_current_state d mask => .iocbiConv freezeCurrentState d (mask.getD [])
  | .input_output_control_by_identifier_short_term_adjustment d st mask => .iocbiShortTerm d st (mask.getD [])
  | .routine_control_start_routine r rec sup => .routine startRoutine r (rec.getD []) (sup.getD false)
  | .routine_control_stop_routine r rec sup => .routine stopRoutine r (rec.getD []) (sup.getD false)
  | .routine_control_request_routine_results r rec sup => .routine requestRoutineResults r (rec.getD []) (sup.getD false)
  | .request_download a s c e f => .reqDownload a s (c.getD 0) (e.getD 0) (optInt f)
  | .request_upload a s c e f => .reqUpload a s (c.getD 0) (e.getD 0) (optInt f)
  | .transfer_data c rec => .transferData c (rec.getD [])
  | .request_transfer_exit rec => .transferExit (rec.getD [])
  | .define_by_identifier d a b c sup => .defineById d a.toList b.toList c.toList (sup.getD false)
  | .define_by_memory_address d a s f sup => .defineByMem d a.toList s.toList (optInt f) (sup.getD false)
  | .clear_dynamically_defined_data_identifier d sup => .clearDDDI d (sup.getD false)
  | .ping => .testerPresent false
  | .read_session => .rdbi [activeDiagnosticSessionDataIdentifier]
  | .set_session level _ => .dsc level false
  | .read_dtc => .dtcByMask reportDTCByStatusMask allDTCStatusMask false
  | .clear_dtc => .clearDTC allGroupsOfDTC
  | .read_vin => .rdbi [vinDataIdentifier]
  | .refresh_state _ => .rdbi [activeDiagnosticSessionDataIdentifier]

/-- the request a call denotes, or the refusal of an out-of-range argument -/
def denote (c : Call) : Except Refusal Req := mk (argsOf c)

/-- the call with every optional argument that was left out spelled out as its documented default -/
def Call.fill : Call → Call
  | .send_raw pdu => .send_raw pdu
  | .diagnostic_session_control ty sup => .diagnostic_session_control ty (some (sup.getD false))
  | .ecu_reset ty sup => .ecu_reset ty (some (sup.getD false))
  | .security_access_request_seed lvl rec sup => .security_access_request_seed lvl (some (rec.getD [])) (some (sup.getD false))
  | .security_access_send_key lvl key sup => .security_access_send_key lvl key (some (sup.getD false))
  | .communication_control ct comm sup => .communication_control ct comm (some (sup.getD false))
  | .tester_present sup => .tester_present (some (sup.getD false))
  | .control_dtc_setting ty rec sup => .control_dtc_setting ty (some (rec.getD [])) (some (sup.getD false))
  | .read_data_by_identifier dids => .read_data_by_identifier dids
  | .read_memory_by_address a s f => .read_memory_by_address a s (some (optInt f))
  | .write_data_by_identifier d rec => .write_data_by_identifier d rec
  | .write_memory_by_address a rec s f => .write_memory_by_address a rec (some (optInt s)) (some (optInt f))
  | .clear_diagnostic_information g => .clear_diagnostic_information g
  | .read_dtc_information_report_number_of_dtc_by_status_mask m sup =>
      .read_dtc_information_report_number_of_dtc_by_status_mask m (some (sup.getD false))
  | .read_dtc_information_report_dtc_by_status_mask m sup => .read_dtc_information_report_dtc_by_status_mask m (some (sup.getD false))
  | .read_dtc_information_report_mirror_memory_dtc_by_status_mask m sup =>
      .read_dtc_information_report_mirror_memory_dtc_by_status_mask m (some (sup.getD false))
  | .read_dtc_information_report_number_of_mirror_memory_dtc_by_status_mask m sup =>
      .read_dtc_information_report_number_of_mirror_memory_dtc_by_status_mask m (some (sup.getD false))
  | .read_dtc_information_report_number_of_emissions_related_obd_dtc_by_status_mask m sup =>
      .read_dtc_information_report_number_of_emissions_related_obd_dtc_by_status_mask m (some (sup.getD false))
  | .read_dtc_information_report_emissions_related_obd_dtc_by_status_mask m sup =>
      .read_dtc_information_report_emissions_related_obd_dtc_by_status_mask m (some (sup.getD false))
  | .report_dtc_extended_data_record_by_dtc_number d n sup => .report_dtc_extended_data_record_by_dtc_number d n (some (sup.getD false))
  | .input_output_control_by_identifier d opt mask => .input_output_control_by_identifier d opt (some (mask.getD []))
  | .input_output_control_by_identifier_return_control_to_ecu d mask =>
      .input_output_control_by_identifier_return_control_to_ecu d (some (mask.getD []))
  | .input_output_control_by_identifier_reset_to_default d mask =>
      .input_output_control_by_identifier_reset_to_default d (some (mask.getD []))
  | .input_output_control_by_identifier_freeze_current_state d mask =>
      .input_output_control_by_identifier_freeze_current_state d (some (mask.getD []))
  | .input_output_control_by_identifier_short_term_adjustment d st mask =>
      .input_output_control_by_identifier_short_term_adjustment d st (some (mask.getD []))
  | .routine_control_start_routine r rec sup => .routine_control_start_routine r (some (rec.getD [])) (some (sup.getD false))
  | .routine_control_stop_routine r rec sup => .routine_control_stop_routine r (some (rec.getD [])) (some (sup.getD false))
  | .routine_control_request_routine_results r rec sup =>
      .routine_control_request_routine_results r (some (rec.getD [])) (some (sup.getD false))
  | .request_download a s c e f => .request_download a s (some (c.getD 0)) (some (e.getD 0)) (some (optInt f))
  | .request_upload a s c e f => .request_upload a s (some (c.getD 0)) (some (e.getD 0)) (some (optInt f))
  | .transfer_data c rec => .transfer_data c (some (rec.getD []))
  | .request_transfer_exit rec => .request_transfer_exit (some (rec.getD []))
  | .define_by_identifier d a b c sup => .define_by_identifier d a b c (some (sup.getD false))
  | .define_by_memory_address d a s f sup => .define_by_memory_address d a s (some (optInt f)) (some (sup.getD false))
  | .clear_dynamically_defined_data_identifier d sup => .clear_dynamically_defined_data_identifier d (some (sup.getD false))
  | .ping => .ping
  | .read_session => .read_session
  | .set_session level u => .set_session level (some (u.getD true))
  | .read_dtc => .read_dtc
  | .clear_dtc => .clear_dtc
  | .read_vin => .read_vin
  | .refresh_state r => .refresh_state (some (r.getD false))

/-- the `suppress_response` argument of a call, for the methods that have one: `some none` = left out -/
def Call.supArg : Call → Option (Option Bool)
  | .diagnostic_session_control _ s | .ecu_reset _ s | .security_access_request_seed _ _ s | .security_access_send_key _ _ s
  | .communication_control _ _ s | .tester_present s | .control_dtc_setting _ _ s
  | .read_dtc_information_report_number_of_dtc_by_status_mask _ s | .read_dtc_information_report_dtc_by_status_mask _ s
  | .read_dtc_information_report_mirror_memory_dtc_by_status_mask _ s
  | .read_dtc_information_report_number_of_mirror_memory_dtc_by_status_mask _ s
  | .read_dtc_information_report_number_of_emissions_related_obd_dtc_by_status_mask _ s
  | .read_dtc_information_report_emissions_related_obd_dtc_by_status_mask _ s
  | .report_dtc_extended_data_record_by_dtc_number _ _ s
  | .routine_control_start_routine _ _ s | .routine_control_stop_routine _ _ s | .routine_control_request_routine_results _ _ s
  | .define_by_identifier _ _ _ _ s | .define_by_memory_address _ _ _ _ s | .clear_dynamically_defined_data_identifier _ s => some s
  | _ => none

/-- the 16-bit identifier a call names (dataIdentifier / routineIdentifier / dynamicallyDefinedDataIdentifier) and the
    offset ISO 14229-1 puts it at -/
def Call.identArg : Call → Option (Nat × Int)
  | .write_data_by_identifier d _ => some (1, d)
  | .input_output_control_by_identifier d _ _ | .input_output_control_by_identifier_return_control_to_ecu d _
  | .input_output_control_by_identifier_reset_to_default d _ | .input_output_control_by_identifier_freeze_current_state d _
  | .input_output_control_by_identifier_short_term_adjustment d _ _ => some (1, d)
  | .routine_control_start_routine r _ _ | .routine_control_stop_routine r _ _ | .routine_control_request_routine_results r _ _ => some (2, r)
  | .define_by_identifier d _ _ _ _ | .define_by_memory_address d _ _ _ _ => some (2, d)
  | .clear_dynamically_defined_data_identifier (some d) _ => some (2, d)
  | .read_data_by_identifier (.one d) => some (1, d)
  | .read_session => some (1, activeDiagnosticSessionDataIdentifier)
  | .refresh_state _ => some (1, activeDiagnosticSessionDataIdentifier)
  | .read_vin => some (1, vinDataIdentifier)
  | _ => none

/-! ### the code as written: tables and their interpreter -/

/-- names of the request building methods (`priv_x` = `_x`) -/
inductive Method where
  | send_raw
  | diagnostic_session_control
  | ecu_reset
  | security_access_request_seed
  | security_access_send_key
  | communication_control
  | tester_present
  | control_dtc_setting
  | read_data_by_identifier
  | read_memory_by_address
  | write_data_by_identifier
  | write_memory_by_address
  | clear_diagnostic_information
  | read_dtc_information_report_number_of_dtc_by_status_mask
  | read_dtc_information_report_dtc_by_status_mask
  | read_dtc_information_report_mirror_memory_dtc_by_status_mask
  | read_dtc_information_report_number_of_mirror_memory_dtc_by_status_mask
  | read_dtc_information_report_number_of_emissions_related_obd_dtc_by_status_mask
  | read_dtc_information_report_emissions_related_obd_dtc_by_status_mask
  | report_dtc_extended_data_record_by_dtc_number
  | input_output_control_by_identifier
  | input_output_control_by_identifier_return_control_to_ecu
  | input_output_control_by_identifier_reset_to_default
  | input_output_control_by_identifier_freeze_current_state
  | input_output_control_by_identifier_short_term_adjustment
  | routine_control_start_routine
  | routine_control_stop_routine
  | routine_control_request_routine_results
  | request_download
  | request_upload
  | transfer_data
  | request_transfer_exit
  | define_by_identifier
  | define_by_memory_address
  | clear_dynamically_defined_data_identifier
  | ping
  | read_session
  | check_and_set_session
  | leave_session
  | set_session
  | read_dtc
  | clear_dtc
  | read_vin
  | transmit_data
  | refresh_state
  | priv_tester_present
  | priv_wait_for_ecu_endless_loop
  | priv_tester_present_worker
  deriving DecidableEq, Repr

/-- parameter names -/
inductive P where
  | pdu | diagnostic_session_type | suppress_response | reset_type | security_access_type
  | security_access_data_record | security_key | control_type | communication_type | dtc_setting_type
  | dtc_setting_control_option_record | data_identifiers | memory_address | memory_size
  | address_and_length_format_identifier | data_identifier | data_record | group_of_dtc | dtc_status_mask
  | dtc_mask_record | dtc_ext_data_record_number | control_option_record | control_enable_mask_record | control_states
  | routine_identifier | routine_control_option_record | compression_method | encryption_method
  | block_sequence_counter | transfer_request_parameter_record | dynamically_defined_data_identifier
  | source_data_identifiers | positions_in_source_data_record | memory_sizes | memory_addresses | suppress_resp
  | level | use_db | data | block_length | max_block_length | expected_session | retries | sleep | reset_state
  | sleep_time | interval
  deriving DecidableEq, Repr

/-- request classes `UDSClient` constructs -/
inductive Cls where
  | RawRequest | DiagnosticSessionControlRequest | ECUResetRequest | RequestSeedRequest | SendKeyRequest
  | CommunicationControlRequest | TesterPresentRequest | ControlDTCSettingRequest | ReadDataByIdentifierRequest
  | ReadMemoryByAddressRequest | WriteDataByIdentifierRequest | WriteMemoryByAddressRequest
  | ClearDiagnosticInformationRequest | ReportNumberOfDTCByStatusMaskRequest | ReportDTCByStatusMaskRequest
  | ReportMirrorMemoryDTCByStatusMaskRequest | ReportNumberOfMirrorMemoryDTCByStatusMaskRequest
  | ReportNumberOfEmissionsRelatedOBDDTCByStatusMaskRequest | ReportEmissionsRelatedOBDDTCByStatusMaskRequest
  | ReportDTCExtDataRecordByDTCNumberRequest | InputOutputControlByIdentifierRequest | ReturnControlToECURequest
  | ResetToDefaultRequest | FreezeCurrentStateRequest | ShortTermAdjustmentRequest | StartRoutineRequest
  | StopRoutineRequest | RequestRoutineResultsRequest | RequestDownloadRequest | RequestUploadRequest
  | TransferDataRequest | RequestTransferExitRequest | DefineByIdentifierRequest | DefineByMemoryAddressRequest
  | ClearDynamicallyDefinedDataIdentifierRequest
  deriving DecidableEq, Repr

/-- a Python value as it travels through a call -/
inductive Val where
  | int (i : Int)
  | bytes (b : Bytes)
  | bool (b : Bool)
  | none
  | ints (l : List Int)
  deriving DecidableEq, Repr

/-- an argument expression at a call site: a parameter of the enclosing function, a literal, or other source text -/
inductive Tok where
  | param (p : P)
  | const (v : Val)
  | expr (s : String)
  deriving DecidableEq, Repr

/-- a parameter and its default (`none` = required) -/
structure Param where
  name : P
  dflt : Option Val
  deriving DecidableEq, Repr

structure Sig where
  method : Method
  params : List Param
  deriving DecidableEq, Repr

/-- `service.<cls>(...)` inside method `fn`: (constructor parameter, expression passed) -/
structure CtorSite where
  fn : Method
  cls : Cls
  args : List (P × Tok)
  deriving DecidableEq, Repr

/-- `self.<callee>(...)` inside method `caller`: (callee parameter, expression passed), `config` dropped -/
structure CallSite where
  caller : Method
  callee : Method
  args : List (P × Tok)
  deriving DecidableEq, Repr

structure ClsSig where
  cls : Cls
  params : List Param
  sid : Option Nat
  sf : Option Nat
  deriving DecidableEq, Repr

/-- parameters (without self / config) and defaults of every request building method -/
def sigs : List Sig := [
  ⟨.priv_tester_present, [⟨.suppress_resp, (some (.bool false))⟩]⟩,
  ⟨.send_raw, [⟨.pdu, none⟩]⟩,
  ⟨.diagnostic_session_control, [⟨.diagnostic_session_type, none⟩, ⟨.suppress_response, (some (.bool false))⟩]⟩,
  ⟨.ecu_reset, [⟨.reset_type, none⟩, ⟨.suppress_response, (some (.bool false))⟩]⟩,
  ⟨.security_access_request_seed, [⟨.security_access_type, none⟩, ⟨.security_access_data_record, (some (.bytes []))⟩, ⟨.suppress_response, (some (.bool false))⟩]⟩,
  ⟨.security_access_send_key, [⟨.security_access_type, none⟩, ⟨.security_key, none⟩, ⟨.suppress_response, (some (.bool false))⟩]⟩,
  ⟨.communication_control, [⟨.control_type, none⟩, ⟨.communication_type, none⟩, ⟨.suppress_response, (some (.bool false))⟩]⟩,
  ⟨.tester_present, [⟨.suppress_response, (some (.bool false))⟩]⟩,
  ⟨.control_dtc_setting, [⟨.dtc_setting_type, none⟩, ⟨.dtc_setting_control_option_record, (some (.bytes []))⟩, ⟨.suppress_response, (some (.bool false))⟩]⟩,
  ⟨.read_data_by_identifier, [⟨.data_identifiers, none⟩]⟩,
  ⟨.read_memory_by_address, [⟨.memory_address, none⟩, ⟨.memory_size, none⟩, ⟨.address_and_length_format_identifier, (some .none)⟩]⟩,
  ⟨.write_data_by_identifier, [⟨.data_identifier, none⟩, ⟨.data_record, none⟩]⟩,
  ⟨.write_memory_by_address, [⟨.memory_address, none⟩, ⟨.data_record, none⟩, ⟨.memory_size, (some .none)⟩, ⟨.address_and_length_format_identifier, (some .none)⟩]⟩,
  ⟨.clear_diagnostic_information, [⟨.group_of_dtc, none⟩]⟩,
  ⟨.read_dtc_information_report_number_of_dtc_by_status_mask, [⟨.dtc_status_mask, none⟩, ⟨.suppress_response, (some (.bool false))⟩]⟩,
  ⟨.read_dtc_information_report_dtc_by_status_mask, [⟨.dtc_status_mask, none⟩, ⟨.suppress_response, (some (.bool false))⟩]⟩,
  ⟨.read_dtc_information_report_mirror_memory_dtc_by_status_mask, [⟨.dtc_status_mask, none⟩, ⟨.suppress_response, (some (.bool false))⟩]⟩,
  ⟨.read_dtc_information_report_number_of_mirror_memory_dtc_by_status_mask, [⟨.dtc_status_mask, none⟩, ⟨.suppress_response, (some (.bool false))⟩]⟩,
  ⟨.read_dtc_information_report_number_of_emissions_related_obd_dtc_by_status_mask, [⟨.dtc_status_mask, none⟩, ⟨.suppress_response, (some (.bool false))⟩]⟩,
  ⟨.read_dtc_information_report_emissions_related_obd_dtc_by_status_mask, [⟨.dtc_status_mask, none⟩, ⟨.suppress_response, (some (.bool false))⟩]⟩,
  ⟨.report_dtc_extended_data_record_by_dtc_number, [⟨.dtc_mask_record, none⟩, ⟨.dtc_ext_data_record_number, none⟩, ⟨.suppress_response, (some (.bool false))⟩]⟩,
  ⟨.input_output_control_by_identifier, [⟨.data_identifier, none⟩, ⟨.control_option_record, none⟩, ⟨.control_enable_mask_record, (some (.bytes []))⟩]⟩,
  ⟨.input_output_control_by_identifier_return_control_to_ecu, [⟨.data_identifier, none⟩, ⟨.control_enable_mask_record, (some (.bytes []))⟩]⟩,
  ⟨.input_output_control_by_identifier_reset_to_default, [⟨.data_identifier, none⟩, ⟨.control_enable_mask_record, (some (.bytes []))⟩]⟩,
  ⟨.input_output_control_by_identifier_freeze_current_state, [⟨.data_identifier, none⟩, ⟨.control_enable_mask_record, (some (.bytes []))⟩]⟩,
  ⟨.input_output_control_by_identifier_short_term_adjustment, [⟨.data_identifier, none⟩, ⟨.control_states, none⟩, ⟨.control_enable_mask_record, (some (.bytes []))⟩]⟩,
  ⟨.routine_control_start_routine, [⟨.routine_identifier, none⟩, ⟨.routine_control_option_record, (some (.bytes []))⟩, ⟨.suppress_response, (some (.bool false))⟩]⟩,
  ⟨.routine_control_stop_routine, [⟨.routine_identifier, none⟩, ⟨.routine_control_option_record, (some (.bytes []))⟩, ⟨.suppress_response, (some (.bool false))⟩]⟩,
  ⟨.routine_control_request_routine_results, [⟨.routine_identifier, none⟩, ⟨.routine_control_option_record, (some (.bytes []))⟩, ⟨.suppress_response, (some (.bool false))⟩]⟩,
  ⟨.request_download, [⟨.memory_address, none⟩, ⟨.memory_size, none⟩, ⟨.compression_method, (some (.int 0))⟩, ⟨.encryption_method, (some (.int 0))⟩, ⟨.address_and_length_format_identifier, (some .none)⟩]⟩,
  ⟨.request_upload, [⟨.memory_address, none⟩, ⟨.memory_size, none⟩, ⟨.compression_method, (some (.int 0))⟩, ⟨.encryption_method, (some (.int 0))⟩, ⟨.address_and_length_format_identifier, (some .none)⟩]⟩,
  ⟨.transfer_data, [⟨.block_sequence_counter, none⟩, ⟨.transfer_request_parameter_record, (some (.bytes []))⟩]⟩,
  ⟨.request_transfer_exit, [⟨.transfer_request_parameter_record, (some (.bytes []))⟩]⟩,
  ⟨.define_by_identifier, [⟨.dynamically_defined_data_identifier, none⟩, ⟨.source_data_identifiers, none⟩, ⟨.positions_in_source_data_record, none⟩, ⟨.memory_sizes, none⟩, ⟨.suppress_response, (some (.bool false))⟩]⟩,
  ⟨.define_by_memory_address, [⟨.dynamically_defined_data_identifier, none⟩, ⟨.memory_addresses, none⟩, ⟨.memory_sizes, none⟩, ⟨.address_and_length_format_identifier, (some .none)⟩, ⟨.suppress_response, (some (.bool false))⟩]⟩,
  ⟨.clear_dynamically_defined_data_identifier, [⟨.dynamically_defined_data_identifier, none⟩, ⟨.suppress_response, (some (.bool false))⟩]⟩,
  ⟨.ping, []⟩,
  ⟨.read_session, []⟩,
  ⟨.check_and_set_session, [⟨.expected_session, none⟩, ⟨.retries, (some (.int 3))⟩]⟩,
  ⟨.leave_session, [⟨.level, none⟩, ⟨.sleep, (some .none)⟩]⟩,
  ⟨.set_session, [⟨.level, none⟩, ⟨.use_db, (some (.bool true))⟩]⟩,
  ⟨.read_dtc, []⟩,
  ⟨.clear_dtc, []⟩,
  ⟨.read_vin, []⟩,
  ⟨.transmit_data, [⟨.data, none⟩, ⟨.block_length, none⟩, ⟨.max_block_length, (some (.int 4095))⟩]⟩,
  ⟨.priv_wait_for_ecu_endless_loop, [⟨.sleep_time, none⟩]⟩,
  ⟨.priv_tester_present_worker, [⟨.interval, none⟩]⟩,
  ⟨.refresh_state, [⟨.reset_state, (some (.bool false))⟩]⟩ ]

/-- the request class every method body constructs and what it passes for each constructor parameter -/
def ctorSites : List CtorSite := [
  ⟨.priv_tester_present, .TesterPresentRequest, [(.suppress_response, (.const (.bool true)))]⟩,
  ⟨.send_raw, .RawRequest, [(.pdu, (.param .pdu))]⟩,
  ⟨.diagnostic_session_control, .DiagnosticSessionControlRequest, [(.diagnostic_session_type, (.param .diagnostic_session_type)), (.suppress_response, (.param .suppress_response))]⟩,
  ⟨.ecu_reset, .ECUResetRequest, [(.reset_type, (.param .reset_type)), (.suppress_response, (.param .suppress_response))]⟩,
  ⟨.security_access_request_seed, .RequestSeedRequest, [(.security_access_type, (.param .security_access_type)), (.security_access_data_record, (.param .security_access_data_record)), (.suppress_response, (.param .suppress_response))]⟩,
  ⟨.security_access_send_key, .SendKeyRequest, [(.security_access_type, (.param .security_access_type)), (.security_key, (.param .security_key)), (.suppress_response, (.param .suppress_response))]⟩,
  ⟨.communication_control, .CommunicationControlRequest, [(.control_type, (.param .control_type)), (.communication_type, (.param .communication_type)), (.suppress_response, (.param .suppress_response))]⟩,
  ⟨.tester_present, .TesterPresentRequest, [(.suppress_response, (.param .suppress_response))]⟩,
  ⟨.control_dtc_setting, .ControlDTCSettingRequest, [(.dtc_setting_type, (.param .dtc_setting_type)), (.dtc_setting_control_option_record, (.param .dtc_setting_control_option_record)), (.suppress_response, (.param .suppress_response))]⟩,
  ⟨.read_data_by_identifier, .ReadDataByIdentifierRequest, [(.data_identifiers, (.param .data_identifiers))]⟩,
  ⟨.read_memory_by_address, .ReadMemoryByAddressRequest, [(.memory_address, (.param .memory_address)), (.memory_size, (.param .memory_size)), (.address_and_length_format_identifier, (.param .address_and_length_format_identifier))]⟩,
  ⟨.write_data_by_identifier, .WriteDataByIdentifierRequest, [(.data_identifier, (.param .data_identifier)), (.data_record, (.param .data_record))]⟩,
  ⟨.write_memory_by_address, .WriteMemoryByAddressRequest, [(.memory_address, (.param .memory_address)), (.data_record, (.param .data_record)), (.memory_size, (.param .memory_size)), (.address_and_length_format_identifier, (.param .address_and_length_format_identifier))]⟩,
  ⟨.clear_diagnostic_information, .ClearDiagnosticInformationRequest, [(.group_of_dtc, (.param .group_of_dtc))]⟩,
  ⟨.read_dtc_information_report_number_of_dtc_by_status_mask, .ReportNumberOfDTCByStatusMaskRequest, [(.dtc_status_mask, (.param .dtc_status_mask)), (.suppress_response, (.param .suppress_response))]⟩,
  ⟨.read_dtc_information_report_dtc_by_status_mask, .ReportDTCByStatusMaskRequest, [(.dtc_status_mask, (.param .dtc_status_mask)), (.suppress_response, (.param .suppress_response))]⟩,
  ⟨.read_dtc_information_report_mirror_memory_dtc_by_status_mask, .ReportMirrorMemoryDTCByStatusMaskRequest, [(.dtc_status_mask, (.param .dtc_status_mask)), (.suppress_response, (.param .suppress_response))]⟩,
  ⟨.read_dtc_information_report_number_of_mirror_memory_dtc_by_status_mask, .ReportNumberOfMirrorMemoryDTCByStatusMaskRequest, [(.dtc_status_mask, (.param .dtc_status_mask)), (.suppress_response, (.param .suppress_response))]⟩,
  ⟨.read_dtc_information_report_number_of_emissions_related_obd_dtc_by_status_mask, .ReportNumberOfEmissionsRelatedOBDDTCByStatusMaskRequest, [(.dtc_status_mask, (.param .dtc_status_mask)), (.suppress_response, (.param .suppress_response))]⟩,
  ⟨.read_dtc_information_report_emissions_related_obd_dtc_by_status_mask, .ReportEmissionsRelatedOBDDTCByStatusMaskRequest, [(.dtc_status_mask, (.param .dtc_status_mask)), (.suppress_response, (.param .suppress_response))]⟩,
  ⟨.report_dtc_extended_data_record_by_dtc_number, .ReportDTCExtDataRecordByDTCNumberRequest, [(.dtc_mask_record, (.param .dtc_mask_record)), (.dtc_ext_data_record_number, (.param .dtc_ext_data_record_number)), (.suppress_response, (.param .suppress_response))]⟩,
  ⟨.input_output_control_by_identifier, .InputOutputControlByIdentifierRequest, [(.data_identifier, (.param .data_identifier)), (.control_option_record, (.param .control_option_record)), (.control_enable_mask_record, (.param .control_enable_mask_record))]⟩,
  ⟨.input_output_control_by_identifier_return_control_to_ecu, .ReturnControlToECURequest, [(.data_identifier, (.param .data_identifier)), (.control_enable_mask_record, (.param .control_enable_mask_record))]⟩,
  ⟨.input_output_control_by_identifier_reset_to_default, .ResetToDefaultRequest, [(.data_identifier, (.param .data_identifier)), (.control_enable_mask_record, (.param .control_enable_mask_record))]⟩,
  ⟨.input_output_control_by_identifier_freeze_current_state, .FreezeCurrentStateRequest, [(.data_identifier, (.param .data_identifier)), (.control_enable_mask_record, (.param .control_enable_mask_record))]⟩,
  ⟨.input_output_control_by_identifier_short_term_adjustment, .ShortTermAdjustmentRequest, [(.data_identifier, (.param .data_identifier)), (.control_states, (.param .control_states)), (.control_enable_mask_record, (.param .control_enable_mask_record))]⟩,
  ⟨.routine_control_start_routine, .StartRoutineRequest, [(.routine_identifier, (.param .routine_identifier)), (.routine_control_option_record, (.param .routine_control_option_record)), (.suppress_response, (.param .suppress_response))]⟩,
  ⟨.routine_control_stop_routine, .StopRoutineRequest, [(.routine_identifier, (.param .routine_identifier)), (.routine_control_option_record, (.param .routine_control_option_record)), (.suppress_response, (.param .suppress_response))]⟩,
  ⟨.routine_control_request_routine_results, .RequestRoutineResultsRequest, [(.routine_identifier, (.param .routine_identifier)), (.routine_control_option_record, (.param .routine_control_option_record)), (.suppress_response, (.param .suppress_response))]⟩,
  ⟨.request_download, .RequestDownloadRequest, [(.memory_address, (.param .memory_address)), (.memory_size, (.param .memory_size)), (.compression_method, (.param .compression_method)), (.encryption_method, (.param .encryption_method)), (.address_and_length_format_identifier, (.param .address_and_length_format_identifier))]⟩,
  ⟨.request_upload, .RequestUploadRequest, [(.memory_address, (.param .memory_address)), (.memory_size, (.param .memory_size)), (.compression_method, (.param .compression_method)), (.encryption_method, (.param .encryption_method)), (.address_and_length_format_identifier, (.param .address_and_length_format_identifier))]⟩,
  ⟨.transfer_data, .TransferDataRequest, [(.block_sequence_counter, (.param .block_sequence_counter)), (.transfer_request_parameter_record, (.param .transfer_request_parameter_record))]⟩,
  ⟨.request_transfer_exit, .RequestTransferExitRequest, [(.transfer_request_parameter_record, (.param .transfer_request_parameter_record))]⟩,
  ⟨.define_by_identifier, .DefineByIdentifierRequest, [(.dynamically_defined_data_identifier, (.param .dynamically_defined_data_identifier)), (.source_data_identifiers, (.param .source_data_identifiers)), (.positions_in_source_data_record, (.param .positions_in_source_data_record)), (.memory_sizes, (.param .memory_sizes)), (.suppress_response, (.param .suppress_response))]⟩,
  ⟨.define_by_memory_address, .DefineByMemoryAddressRequest, [(.dynamically_defined_data_identifier, (.param .dynamically_defined_data_identifier)), (.memory_addresses, (.param .memory_addresses)), (.memory_sizes, (.param .memory_sizes)), (.address_and_length_format_identifier, (.param .address_and_length_format_identifier)), (.suppress_response, (.param .suppress_response))]⟩,
  ⟨.clear_dynamically_defined_data_identifier, .ClearDynamicallyDefinedDataIdentifierRequest, [(.dynamically_defined_data_identifier, (.param .dynamically_defined_data_identifier)), (.suppress_response, (.param .suppress_response))]⟩ ]

/-- delegations between request building methods -/
def callSites : List CallSite := [
  ⟨.priv_tester_present, .tester_present, [(.suppress_response, (.const (.bool false)))]⟩,
  ⟨.ping, .tester_present, [(.suppress_response, (.const (.bool false)))]⟩,
  ⟨.read_session, .read_data_by_identifier, [(.data_identifiers, (.const (.int 61830)))]⟩,
  ⟨.check_and_set_session, .read_session, []⟩,
  ⟨.check_and_set_session, .set_session, [(.level, (.param .expected_session))]⟩,
  ⟨.check_and_set_session, .read_session, []⟩,
  ⟨.leave_session, .ecu_reset, [(.reset_type, (.const (.int 1)))]⟩,
  ⟨.leave_session, .set_session, [(.level, (.const (.int 1)))]⟩,
  ⟨.set_session, .diagnostic_session_control, [(.diagnostic_session_type, (.param .level))]⟩,
  ⟨.set_session, .set_session, [(.level, (.expr "step")), (.use_db, (.const (.bool false)))]⟩,
  ⟨.set_session, .diagnostic_session_control, [(.diagnostic_session_type, (.param .level))]⟩,
  ⟨.read_dtc, .read_dtc_information_report_dtc_by_status_mask, [(.dtc_status_mask, (.const (.int 255)))]⟩,
  ⟨.clear_dtc, .clear_diagnostic_information, [(.group_of_dtc, (.const (.int 16777215)))]⟩,
  ⟨.read_vin, .read_data_by_identifier, [(.data_identifiers, (.const (.int 61840)))]⟩,
  ⟨.transmit_data, .transfer_data, [(.block_sequence_counter, (.expr "counter & 255")), (.transfer_request_parameter_record, (.expr "payload"))]⟩,
  ⟨.transmit_data, .request_transfer_exit, []⟩,
  ⟨.priv_wait_for_ecu_endless_loop, .ping, []⟩,
  ⟨.priv_tester_present_worker, .ping, []⟩,
  ⟨.refresh_state, .read_session, []⟩ ]

/-- constructor parameters / defaults, service id and class-level sub-function id of the constructed classes -/
def classSigs : List ClsSig := [
  ⟨.RawRequest, [⟨.pdu, none⟩], none, none⟩,
  ⟨.DiagnosticSessionControlRequest, [⟨.diagnostic_session_type, none⟩, ⟨.suppress_response, (some (.bool false))⟩], (some 16), none⟩,
  ⟨.ECUResetRequest, [⟨.reset_type, none⟩, ⟨.suppress_response, (some (.bool false))⟩], (some 17), none⟩,
  ⟨.RequestSeedRequest, [⟨.security_access_type, none⟩, ⟨.security_access_data_record, (some (.bytes []))⟩, ⟨.suppress_response, (some (.bool false))⟩], (some 39), none⟩,
  ⟨.SendKeyRequest, [⟨.security_access_type, none⟩, ⟨.security_key, none⟩, ⟨.suppress_response, (some (.bool false))⟩], (some 39), none⟩,
  ⟨.CommunicationControlRequest, [⟨.control_type, none⟩, ⟨.communication_type, none⟩, ⟨.suppress_response, (some (.bool false))⟩], (some 40), none⟩,
  ⟨.TesterPresentRequest, [⟨.suppress_response, (some (.bool false))⟩], (some 62), (some 0)⟩,
  ⟨.ControlDTCSettingRequest, [⟨.dtc_setting_type, none⟩, ⟨.dtc_setting_control_option_record, (some (.bytes []))⟩, ⟨.suppress_response, (some (.bool false))⟩], (some 133), none⟩,
  ⟨.ReadDataByIdentifierRequest, [⟨.data_identifiers, none⟩], (some 34), none⟩,
  ⟨.ReadMemoryByAddressRequest, [⟨.memory_address, none⟩, ⟨.memory_size, none⟩, ⟨.address_and_length_format_identifier, (some .none)⟩], (some 35), none⟩,
  ⟨.WriteDataByIdentifierRequest, [⟨.data_identifier, none⟩, ⟨.data_record, none⟩], (some 46), none⟩,
  ⟨.WriteMemoryByAddressRequest, [⟨.memory_address, none⟩, ⟨.data_record, none⟩, ⟨.memory_size, (some .none)⟩, ⟨.address_and_length_format_identifier, (some .none)⟩], (some 61), none⟩,
  ⟨.ClearDiagnosticInformationRequest, [⟨.group_of_dtc, none⟩], (some 20), none⟩,
  ⟨.ReportNumberOfDTCByStatusMaskRequest, [⟨.dtc_status_mask, none⟩, ⟨.suppress_response, (some (.bool false))⟩], (some 25), (some 1)⟩,
  ⟨.ReportDTCByStatusMaskRequest, [⟨.dtc_status_mask, none⟩, ⟨.suppress_response, (some (.bool false))⟩], (some 25), (some 2)⟩,
  ⟨.ReportMirrorMemoryDTCByStatusMaskRequest, [⟨.dtc_status_mask, none⟩, ⟨.suppress_response, (some (.bool false))⟩], (some 25), (some 15)⟩,
  ⟨.ReportNumberOfMirrorMemoryDTCByStatusMaskRequest, [⟨.dtc_status_mask, none⟩, ⟨.suppress_response, (some (.bool false))⟩], (some 25), (some 17)⟩,
  ⟨.ReportNumberOfEmissionsRelatedOBDDTCByStatusMaskRequest, [⟨.dtc_status_mask, none⟩, ⟨.suppress_response, (some (.bool false))⟩], (some 25), (some 18)⟩,
  ⟨.ReportEmissionsRelatedOBDDTCByStatusMaskRequest, [⟨.dtc_status_mask, none⟩, ⟨.suppress_response, (some (.bool false))⟩], (some 25), (some 19)⟩,
  ⟨.ReportDTCExtDataRecordByDTCNumberRequest, [⟨.dtc_mask_record, none⟩, ⟨.dtc_ext_data_record_number, none⟩, ⟨.suppress_response, (some (.bool false))⟩], (some 25), (some 6)⟩,
  ⟨.InputOutputControlByIdentifierRequest, [⟨.data_identifier, none⟩, ⟨.control_option_record, none⟩, ⟨.control_enable_mask_record, (some (.bytes []))⟩], (some 47), none⟩,
  ⟨.ReturnControlToECURequest, [⟨.data_identifier, none⟩, ⟨.control_enable_mask_record, (some (.bytes []))⟩], (some 47), none⟩,
  ⟨.ResetToDefaultRequest, [⟨.data_identifier, none⟩, ⟨.control_enable_mask_record, (some (.bytes []))⟩], (some 47), none⟩,
  ⟨.FreezeCurrentStateRequest, [⟨.data_identifier, none⟩, ⟨.control_enable_mask_record, (some (.bytes []))⟩], (some 47), none⟩,
  ⟨.ShortTermAdjustmentRequest, [⟨.data_identifier, none⟩, ⟨.control_states, none⟩, ⟨.control_enable_mask_record, (some (.bytes []))⟩], (some 47), none⟩,
  ⟨.StartRoutineRequest, [⟨.routine_identifier, none⟩, ⟨.routine_control_option_record, (some (.bytes []))⟩, ⟨.suppress_response, (some (.bool false))⟩], (some 49), (some 1)⟩,
  ⟨.StopRoutineRequest, [⟨.routine_identifier, none⟩, ⟨.routine_control_option_record, (some (.bytes []))⟩, ⟨.suppress_response, (some (.bool false))⟩], (some 49), (some 2)⟩,
  ⟨.RequestRoutineResultsRequest, [⟨.routine_identifier, none⟩, ⟨.routine_control_option_record, (some (.bytes []))⟩, ⟨.suppress_response, (some (.bool false))⟩], (some 49), (some 3)⟩,
  ⟨.RequestDownloadRequest, [⟨.memory_address, none⟩, ⟨.memory_size, none⟩, ⟨.compression_method, (some (.int 0))⟩, ⟨.encryption_method, (some (.int 0))⟩, ⟨.address_and_length_format_identifier, (some .none)⟩], (some 52), none⟩,
  ⟨.RequestUploadRequest, [⟨.memory_address, none⟩, ⟨.memory_size, none⟩, ⟨.compression_method, (some (.int 0))⟩, ⟨.encryption_method, (some (.int 0))⟩, ⟨.address_and_length_format_identifier, (some .none)⟩], (some 53), none⟩,
  ⟨.TransferDataRequest, [⟨.block_sequence_counter, none⟩, ⟨.transfer_request_parameter_record, (some (.bytes []))⟩], (some 54), none⟩,
  ⟨.RequestTransferExitRequest, [⟨.transfer_request_parameter_record, (some (.bytes []))⟩], (some 55), none⟩,
  ⟨.DefineByIdentifierRequest, [⟨.dynamically_defined_data_identifier, none⟩, ⟨.source_data_identifiers, none⟩, ⟨.positions_in_source_data_record, none⟩, ⟨.memory_sizes, none⟩, ⟨.suppress_response, (some (.bool false))⟩], (some 44), (some 1)⟩,
  ⟨.DefineByMemoryAddressRequest, [⟨.dynamically_defined_data_identifier, none⟩, ⟨.memory_addresses, none⟩, ⟨.memory_sizes, none⟩, ⟨.address_and_length_format_identifier, (some .none)⟩, ⟨.suppress_response, (some (.bool false))⟩], (some 44), (some 2)⟩,
  ⟨.ClearDynamicallyDefinedDataIdentifierRequest, [⟨.dynamically_defined_data_identifier, none⟩, ⟨.suppress_response, (some (.bool false))⟩], (some 44), (some 3)⟩ ]

/-- ISO 14229-1: the service id and the sub-function each public method stands for -/
def wireTable : List (Method × Option Nat × Option Nat) := [
  (.send_raw, none, none),
  (.diagnostic_session_control, (some 16), none),
  (.ecu_reset, (some 17), none),
  (.security_access_request_seed, (some 39), none),
  (.security_access_send_key, (some 39), none),
  (.communication_control, (some 40), none),
  (.tester_present, (some 62), (some 0)),
  (.control_dtc_setting, (some 133), none),
  (.read_data_by_identifier, (some 34), none),
  (.read_memory_by_address, (some 35), none),
  (.write_data_by_identifier, (some 46), none),
  (.write_memory_by_address, (some 61), none),
  (.clear_diagnostic_information, (some 20), none),
  (.read_dtc_information_report_number_of_dtc_by_status_mask, (some 25), (some 1)),
  (.read_dtc_information_report_dtc_by_status_mask, (some 25), (some 2)),
  (.read_dtc_information_report_mirror_memory_dtc_by_status_mask, (some 25), (some 15)),
  (.read_dtc_information_report_number_of_mirror_memory_dtc_by_status_mask, (some 25), (some 17)),
  (.read_dtc_information_report_number_of_emissions_related_obd_dtc_by_status_mask, (some 25), (some 18)),
  (.read_dtc_information_report_emissions_related_obd_dtc_by_status_mask, (some 25), (some 19)),
  (.report_dtc_extended_data_record_by_dtc_number, (some 25), (some 6)),
  (.input_output_control_by_identifier, (some 47), none),
  (.input_output_control_by_identifier_return_control_to_ecu, (some 47), none),
  (.input_output_control_by_identifier_reset_to_default, (some 47), none),
  (.input_output_control_by_identifier_freeze_current_state, (some 47), none),
  (.input_output_control_by_identifier_short_term_adjustment, (some 47), none),
  (.routine_control_start_routine, (some 49), (some 1)),
  (.routine_control_stop_routine, (some 49), (some 2)),
  (.routine_control_request_routine_results, (some 49), (some 3)),
  (.request_download, (some 52), none),
  (.request_upload, (some 53), none),
  (.transfer_data, (some 54), none),
  (.request_transfer_exit, (some 55), none),
  (.define_by_identifier, (some 44), (some 1)),
  (.define_by_memory_address, (some 44), (some 2)),
  (.clear_dynamically_defined_data_identifier, (some 44), (some 3)) ]

/-- what a public service method does besides building its request and handing it to `self.request`: nothing — except two dead
    assignments to an unused local in `input_output_control_by_identifier` -/
def bodies : List (Method × List String) :=
  wireTable.map fun e =>
    (e.1, if e.1 = .input_output_control_by_identifier then
      ["pdu = struct.pack('!BH', UDSIsoServices.InputOutputControlByIdentifier, data_identifier)",
       "pdu += control_option_record + control_enable_mask_record"] else [])

/-- `ECU.transmit_data`, the statements `transmitCalls` below transcribes -/
def transmitBody : List String := [
  "if block_length > max_block_length:",
  "    block_length = max_block_length",
  "payload_size = block_length - 2",
  "if payload_size < 1:",
  "    raise ValueError(f'block length {block_length} leaves no room for payload')",
  "counter = 0",
  "for i in range(0, len(data), payload_size):",
  "    counter += 1",
  "    payload = data[i:i + payload_size]",
  "    resp = await self.transfer_data(counter & 255, payload, config=config)",
  "    raise_for_error(resp, f'Transmitting data failed at index {g_repr(i)}')",
  "resp = await self.request_transfer_exit(config=config)",
  "raise_for_error(resp)" ]

/-! ### interpreter: a method call as the code executes it -/

abbrev Env := List (P × Val)

def envGet (e : Env) (p : P) : Option Val := (e.find? (fun a => a.1 = p)).map (·.2)

def orRefuse {α} : Option α → Except Refusal α
  | some a => .ok a
  | none => .error .refused

/-- Python's binding of keyword arguments: every keyword names a parameter; a parameter takes the keyword's value, else
    its default; a required parameter that was left out is a `TypeError` -/
def bind (params : List Param) (kw : Env) : Except Refusal Env :=
  if kw.all (fun a => params.any (fun p => p.name = a.1)) then
    params.mapM (fun p =>
      match envGet kw p.name with
      | some v => .ok (p.name, v)
      | none => match p.dflt with
        | some d => .ok (p.name, d)
        | none => .error .refused)
  else .error .refused

def evalTok (env : Env) : Tok → Except Refusal Val
  | .param p => orRefuse (envGet env p)
  | .const v => .ok v
  | .expr _ => .error .refused

def evalArgs (env : Env) (args : List (P × Tok)) : Except Refusal Env :=
  args.mapM (fun a => do let v ← evalTok env a.2; pure (a.1, v))

def valOptInt : Val → Except Refusal (Option Int)
  | .none => .ok none
  | .int i => .ok (some i)
  | _ => .error .refused

/-- `int | Sequence[int]`: a scalar stands for the one-element list -/
def valInts : Val → Except Refusal (List Int)
  | .int i => .ok [i]
  | .ints l => .ok l
  | _ => .error .refused

/-- inputOutputControlParameter of the i-th convenience class (table shared with `Model/UdsReq`, pinned to the live classes by
    `convenience_agrees`) -/
def convParam (i : Nat) : Nat := (iocbiConvenience.getD i (0, 0)).1

/-- the constructor of class `cs.cls` applied to positional values (types as annotated; anything else is outside the model) -/
def toArgs (cs : ClsSig) (vals : List Val) : Except Refusal Args :=
  let bySf (f : Nat → Except Refusal Args) : Except Refusal Args := match cs.sf with | some sf => f sf | none => .error .refused
  match cs.cls with
  | .RawRequest => match vals with | [.bytes b] => .ok (.raw b) | _ => .error .refused
  | .DiagnosticSessionControlRequest => match vals with | [.int t, .bool s] => .ok (.dsc t s) | _ => .error .refused
  | .ECUResetRequest => match vals with | [.int t, .bool s] => .ok (.ecuReset t s) | _ => .error .refused
  | .RequestSeedRequest => match vals with | [.int l, .bytes r, .bool s] => .ok (.requestSeed l r s) | _ => .error .refused
  | .SendKeyRequest => match vals with | [.int l, .bytes k, .bool s] => .ok (.sendKey l k s) | _ => .error .refused
  | .CommunicationControlRequest => match vals with | [.int c, .int m, .bool s] => .ok (.commCtrl c m s) | _ => .error .refused
  | .TesterPresentRequest => match vals with | [.bool s] => .ok (.testerPresent s) | _ => .error .refused
  | .ControlDTCSettingRequest => match vals with | [.int t, .bytes r, .bool s] => .ok (.controlDTC t r s) | _ => .error .refused
  | .ReadDataByIdentifierRequest => match vals with | [d] => do let ds ← valInts d; pure (.rdbi ds) | _ => .error .refused
  | .ReadMemoryByAddressRequest => match vals with
      | [.int a, .int s, f] => do let f ← valOptInt f; pure (.rmba a s f)
      | _ => .error .refused
  | .WriteDataByIdentifierRequest => match vals with | [.int d, .bytes r] => .ok (.wdbi d r) | _ => .error .refused
  | .WriteMemoryByAddressRequest => match vals with
      | [.int a, .bytes r, s, f] => do let s ← valOptInt s; let f ← valOptInt f; pure (.wmba a r s f)
      | _ => .error .refused
  | .ClearDiagnosticInformationRequest => match vals with | [.int g] => .ok (.clearDTC g) | _ => .error .refused
  | .ReportNumberOfDTCByStatusMaskRequest | .ReportDTCByStatusMaskRequest | .ReportMirrorMemoryDTCByStatusMaskRequest
  | .ReportNumberOfMirrorMemoryDTCByStatusMaskRequest | .ReportNumberOfEmissionsRelatedOBDDTCByStatusMaskRequest
  | .ReportEmissionsRelatedOBDDTCByStatusMaskRequest => match vals with
      | [.int m, .bool s] => bySf fun sf => .ok (.dtcByMask sf m s)
      | _ => .error .refused
  | .ReportDTCExtDataRecordByDTCNumberRequest => match vals with
      | [.int d, .int n, .bool s] => .ok (.dtcExtByNumber d n s)
      | [.bytes d, .int n, .bool s] => .ok (.dtcExtByNumberB d n s)
      | _ => .error .refused
  | .InputOutputControlByIdentifierRequest => match vals with | [.int d, .bytes o, .bytes m] => .ok (.iocbi d o m) | _ => .error .refused
  | .ReturnControlToECURequest => match vals with | [.int d, .bytes m] => .ok (.iocbiConv (convParam 0) d m) | _ => .error .refused
  | .ResetToDefaultRequest => match vals with | [.int d, .bytes m] => .ok (.iocbiConv (convParam 1) d m) | _ => .error .refused
  | .FreezeCurrentStateRequest => match vals with | [.int d, .bytes m] => .ok (.iocbiConv (convParam 2) d m) | _ => .error .refused
  | .ShortTermAdjustmentRequest => match vals with | [.int d, .bytes st, .bytes m] => .ok (.iocbiShortTerm d st m) | _ => .error .refused
  | .StartRoutineRequest | .StopRoutineRequest | .RequestRoutineResultsRequest => match vals with
      | [.int r, .bytes rec, .bool s] => bySf fun sf => .ok (.routine sf r rec s)
      | _ => .error .refused
  | .RequestDownloadRequest => match vals with
      | [.int a, .int s, .int c, .int e, f] => do let f ← valOptInt f; pure (.reqDownload a s c e f)
      | _ => .error .refused
  | .RequestUploadRequest => match vals with
      | [.int a, .int s, .int c, .int e, f] => do let f ← valOptInt f; pure (.reqUpload a s c e f)
      | _ => .error .refused
  | .TransferDataRequest => match vals with | [.int c, .bytes r] => .ok (.transferData c r) | _ => .error .refused
  | .RequestTransferExitRequest => match vals with | [.bytes r] => .ok (.transferExit r) | _ => .error .refused
  | .DefineByIdentifierRequest => match vals with
      | [.int d, a, b, c, .bool s] => do
          let a ← valInts a; let b ← valInts b; let c ← valInts c; pure (.defineById d a b c s)
      | _ => .error .refused
  | .DefineByMemoryAddressRequest => match vals with
      | [.int d, a, sz, f, .bool s] => do
          let a ← valInts a; let sz ← valInts sz; let f ← valOptInt f; pure (.defineByMem d a sz f s)
      | _ => .error .refused
  | .ClearDynamicallyDefinedDataIdentifierRequest => match vals with
      | [d, .bool s] => do let d ← valOptInt d; pure (.clearDDDI d s)
      | _ => .error .refused

/-- `service.<cls>(...)` at a construction site, evaluated in the environment of the enclosing method -/
def construct (site : CtorSite) (env : Env) : Except Refusal Req := do
  let kw ← evalArgs env site.args
  let cs ← orRefuse (classSigs.find? (fun c => c.cls = site.cls))
  let cenv ← bind cs.params kw
  let a ← toArgs cs (cenv.map (·.2))
  mk a

/-- run method `m` with keyword arguments `kw` up to the first request it builds: bind the parameters, then either construct
    the request of the method's construction site or follow its first delegation -/
def runMethod : Nat → Method → Env → Except Refusal Req
  | 0, _, _ => .error .refused
  | fuel + 1, m, kw => do
    let sg ← orRefuse (sigs.find? (fun s => s.method = m))
    let env ← bind sg.params kw
    match ctorSites.find? (fun s => s.fn = m) with
    | some site => construct site env
    | none =>
      match callSites.find? (fun s => s.caller = m) with
      | some site => do
        let kw' ← evalArgs env site.args
        runMethod fuel site.callee kw'
      | none => .error .refused

def kwOpt (p : P) : Option Val → Env
  | some v => [(p, v)]
  | none => []

def valOfIntOrList : IntOrList → Val
  | .one i => .int i
  | .many l => .ints l

def valOfOptInt : Option Int → Val
  | none => .none
  | some i => .int i

def valOfBytesOrInt : BytesOrInt → Val
  | .bytes b => .bytes b
  | .int i => .int i

/-- the call as Python sees it: method name and keyword arguments (an argument that was left out is absent) -/
def Call.py : Call → Method × Env
  | .send_raw pdu => (.send_raw, [(.pdu, .bytes pdu)])
  | .diagnostic_session_control t s =>
      (.diagnostic_session_control, (.diagnostic_session_type, .int t) :: kwOpt .suppress_response (s.map .bool))
  | .ecu_reset t s => (.ecu_reset, (.reset_type, .int t) :: kwOpt .suppress_response (s.map .bool))
  | .security_access_request_seed l r s =>
      (.security_access_request_seed, (.security_access_type, .int l) :: kwOpt .security_access_data_record (r.map .bytes)
        ++ kwOpt .suppress_response (s.map .bool))
  | .security_access_send_key l k s =>
      (.security_access_send_key, (.security_access_type, .int l) :: (.security_key, .bytes k) :: kwOpt .suppress_response (s.map .bool))
  | .communication_control c m s =>
      (.communication_control, (.control_type, .int c) :: (.communication_type, .int m) :: kwOpt .suppress_response (s.map .bool))
  | .tester_present s => (.tester_present, kwOpt .suppress_response (s.map .bool))
  | .control_dtc_setting t r s =>
      (.control_dtc_setting, (.dtc_setting_type, .int t) :: kwOpt .dtc_setting_control_option_record (r.map .bytes)
        ++ kwOpt .suppress_response (s.map .bool))
  | .read_data_by_identifier d => (.read_data_by_identifier, [(.data_identifiers, valOfIntOrList d)])
  | .read_memory_by_address a s f =>
      (.read_memory_by_address, (.memory_address, .int a) :: (.memory_size, .int s)
        :: kwOpt .address_and_length_format_identifier (f.map valOfOptInt))
  | .write_data_by_identifier d r => (.write_data_by_identifier, [(.data_identifier, .int d), (.data_record, .bytes r)])
  | .write_memory_by_address a r s f =>
      (.write_memory_by_address, (.memory_address, .int a) :: (.data_record, .bytes r) :: kwOpt .memory_size (s.map valOfOptInt)
        ++ kwOpt .address_and_length_format_identifier (f.map valOfOptInt))
  | .clear_diagnostic_information g => (.clear_diagnostic_information, [(.group_of_dtc, .int g)])
  | .read_dtc_information_report_number_of_dtc_by_status_mask m s =>
      (.read_dtc_information_report_number_of_dtc_by_status_mask, (.dtc_status_mask, .int m) :: kwOpt .suppress_response (s.map .bool))
  | .read_dtc_information_report_dtc_by_status_mask m s =>
      (.read_dtc_information_report_dtc_by_status_mask, (.dtc_status_mask, .int m) :: kwOpt .suppress_response (s.map .bool))
  | .read_dtc_information_report_mirror_memory_dtc_by_status_mask m s =>
      (.read_dtc_information_report_mirror_memory_dtc_by_status_mask, (.dtc_status_mask, .int m) :: kwOpt .suppress_response (s.map .bool))
  | .read_dtc_information_report_number_of_mirror_memory_dtc_by_status_mask m s =>
      (.read_dtc_information_report_number_of_mirror_memory_dtc_by_status_mask,
        (.dtc_status_mask, .int m) :: kwOpt .suppress_response (s.map .bool))
  | .read_dtc_information_report_number_of_emissions_related_obd_dtc_by_status_mask m s =>
      (.read_dtc_information_report_number_of_emissions_related_obd_dtc_by_status_mask,
        (.dtc_status_mask, .int m) :: kwOpt .suppress_response (s.map .bool))
  | .read_dtc_information_report_emissions_related_obd_dtc_by_status_mask m s =>
      (.read_dtc_information_report_emissions_related_obd_dtc_by_status_mask,
        (.dtc_status_mask, .int m) :: kwOpt .suppress_response (s.map .bool))
  | .report_dtc_extended_data_record_by_dtc_number d n s =>
      (.report_dtc_extended_data_record_by_dtc_number, (.dtc_mask_record, valOfBytesOrInt d) :: (.dtc_ext_data_record_number, .int n)
        :: kwOpt .suppress_response (s.map .bool))
  | .input_output_control_by_identifier d o m =>
      (.input_output_control_by_identifier, (.data_identifier, .int d) :: (.control_option_record, .bytes o)
        :: kwOpt .control_enable_mask_record (m.map .bytes))
  | .input_output_control_by_identifier_return_control_to_ecu d m =>
      (.input_output_control_by_identifier_return_control_to_ecu, (.data_identifier, .int d) :: kwOpt .control_enable_mask_record (m.map .bytes))
  | .input_output_control_by_identifier_reset_to_default d m =>
      (.input_output_control_by_identifier_reset_to_default, (.data_identifier, .int d) :: kwOpt .control_enable_mask_record (m.map .bytes))
  | .input_output_control_by_identifier_freeze_current_state d m =>
      (.input_output_control_by_identifier_freeze_current_state, (.data_identifier, .int d) :: kwOpt .control_enable_mask_record (m.map .bytes))
  | .input_output_control_by_identifier_short_term_adjustment d st m =>
      (.input_output_control_by_identifier_short_term_adjustment, (.data_identifier, .int d) :: (.control_states, .bytes st)
        :: kwOpt .control_enable_mask_record (m.map .bytes))
  | .routine_control_start_routine r rec s =>
      (.routine_control_start_routine, (.routine_identifier, .int r) :: kwOpt .routine_control_option_record (rec.map .bytes)
        ++ kwOpt .suppress_response (s.map .bool))
  | .routine_control_stop_routine r rec s =>
      (.routine_control_stop_routine, (.routine_identifier, .int r) :: kwOpt .routine_control_option_record (rec.map .bytes)
        ++ kwOpt .suppress_response (s.map .bool))
  | .routine_control_request_routine_results r rec s =>
      (.routine_control_request_routine_results, (.routine_identifier, .int r) :: kwOpt .routine_control_option_record (rec.map .bytes)
        ++ kwOpt .suppress_response (s.map .bool))
  | .request_download a s c e f =>
      (.request_download, (.memory_address, .int a) :: (.memory_size, .int s) :: kwOpt .compression_method (c.map .int)
        ++ kwOpt .encryption_method (e.map .int) ++ kwOpt .address_and_length_format_identifier (f.map valOfOptInt))
  | .request_upload a s c e f =>
      (.request_upload, (.memory_address, .int a) :: (.memory_size, .int s) :: kwOpt .compression_method (c.map .int)
        ++ kwOpt .encryption_method (e.map .int) ++ kwOpt .address_and_length_format_identifier (f.map valOfOptInt))
  | .transfer_data c r =>
      (.transfer_data, (.block_sequence_counter, .int c) :: kwOpt .transfer_request_parameter_record (r.map .bytes))
  | .request_transfer_exit r => (.request_transfer_exit, kwOpt .transfer_request_parameter_record (r.map .bytes))
  | .define_by_identifier d a b c s =>
      (.define_by_identifier, (.dynamically_defined_data_identifier, .int d) :: (.source_data_identifiers, valOfIntOrList a)
        :: (.positions_in_source_data_record, valOfIntOrList b) :: (.memory_sizes, valOfIntOrList c)
        :: kwOpt .suppress_response (s.map .bool))
  | .define_by_memory_address d a sz f s =>
      (.define_by_memory_address, (.dynamically_defined_data_identifier, .int d) :: (.memory_addresses, valOfIntOrList a)
        :: (.memory_sizes, valOfIntOrList sz) :: kwOpt .address_and_length_format_identifier (f.map valOfOptInt)
        ++ kwOpt .suppress_response (s.map .bool))
  | .clear_dynamically_defined_data_identifier d s =>
      (.clear_dynamically_defined_data_identifier, (.dynamically_defined_data_identifier, valOfOptInt d)
        :: kwOpt .suppress_response (s.map .bool))
  | .ping => (.ping, [])
  | .read_session => (.read_session, [])
  | .set_session l u => (.set_session, (.level, .int l) :: kwOpt .use_db (u.map .bool))
  | .read_dtc => (.read_dtc, [])
  | .clear_dtc => (.clear_dtc, [])
  | .read_vin => (.read_vin, [])
  | .refresh_state r => (.refresh_state, kwOpt .reset_state (r.map .bool))

def Call.method (c : Call) : Method := c.py.1

/-- the request the code builds for a call (delegations are at most two deep: refresh_state → read_session →
    read_data_by_identifier) -/
def codeReq (c : Call) : Except Refusal Req := runMethod 3 c.py.1 c.py.2

/-- the bytes the code hands to the transport for a call -/
def bytesOf (c : Call) : Except Refusal Bytes := (codeReq c).map encode

/-! ### ECU.transmit_data and ECU.leave_session: helpers that send a sequence of requests -/

set_option linter.unusedVariables false in
/-- `data[i : i + k]` for `i` in `range(0, len(data), k)` -/
def chunk (k : Nat) (bs : Bytes) : List Bytes :=
  if h : bs = [] ∨ k = 0 then [] else bs.take k :: chunk k (bs.drop k)
termination_by bs.length
decreasing_by
  have h1 : bs ≠ [] := fun e => h (Or.inl e)
  have h2 : k ≠ 0 := fun e => h (Or.inr e)
  have : 0 < bs.length := List.length_pos_iff.mpr h1
  simp only [List.length_drop]; omega

/-- blockSequenceCounter of the i-th block (0-based): starts at 1, 0xFF is followed by 0x00 (`counter & 0xFF`) -/
def counterOf (i : Nat) : Int := ((i + 1) % 256 : Nat)

/-- default of `max_block_length` -/
def maxBlockLengthDefault : Int := 0xFFF

/-- the block length in force: `block_length` limited to `max_block_length` -/
def effBlockLength (blockLength : Int) (maxBlockLength : Option Int) : Int :=
  let mbl := maxBlockLength.getD maxBlockLengthDefault
  if blockLength > mbl then mbl else blockLength

def transferCalls (chunks : List Bytes) (start : Nat) : List Call :=
  match chunks with
  | [] => []
  | c :: cs => .transfer_data (counterOf start) (some c) :: transferCalls cs (start + 1)

/-- the calls `ECU.transmit_data(data, block_length, max_block_length)` makes when every reply is positive: the block
    length includes service id and counter, so the payload of a block is two bytes shorter; a block length that leaves
    no room for payload is refused -/
def transmitCalls (data : Bytes) (blockLength : Int) (maxBlockLength : Option Int) : Except Refusal (List Call) :=
  let payload := effBlockLength blockLength maxBlockLength - 2
  if payload < 1 then .error .refused
  else .ok (transferCalls (chunk payload.toNat data) 0 ++ [.request_transfer_exit none])

/-- the calls `ECU.leave_session(level)` makes when every reply is positive: ECUReset(hardReset), the ping of
    `wait_for_ecu`, then back to the default session -/
def leaveSessionCalls : List Call := [.ecu_reset 1 none, .ping, .set_session 1 none]

end Gallia.UdsClientApi
