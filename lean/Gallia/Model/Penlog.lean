/-
  C17 — penlog writer / reader (`src/gallia/log.py`, `src/gallia/cli/hr.py`).

  This file is the *oracle* the property names: "the same records, the corresponding slice, each once, in the
  stated order".  It has three layers:

  * the writer: a record `Rec` becomes one line `"<p>" ++ json r ++ "\n"` (`_JSONFormatter.format` +
    `_ZstdFileHandler.emit`), with an explicit `ensure_ascii` JSON string escaper (`json.dumps`);
  * the byte-level reader: `readline` from an offset, the offset table (`_parse_file_structure`), the optional
    `<prio>` prefix, a parser for the writer's JSON shape (`PenlogRecord.parse_json`);
  * navigation: which records a mode (forward / reverse / offset k / tail n / head n) with a priority threshold
    yields, by index through the offset table (`PenlogReader.records`, `hr`).

  Text is a list of Unicode code points (`Str`), file content a list of byte values (`Bs`, every value < 128
  since `ensure_ascii` output is pure ASCII).  Core Lean only.
-/
namespace Gallia.Penlog

abbrev Str := List Nat   -- code points
abbrev Bs := List Nat    -- byte values

/-! ### `json.dumps(str)` with `ensure_ascii=True` -/

/-- a Unicode scalar value: a code point that is not a surrogate -/
def isScalar (c : Nat) : Bool := c < 0x110000 && !(0xD800 ≤ c && c < 0xE000)

/-- lower-case hex digit -/
def hexD (n : Nat) : Nat := if n < 10 then 48 + n else 87 + n

/-- `'{0:04x}'.format(u)` -/
def hex4 (u : Nat) : Bs := [hexD (u / 4096 % 16), hexD (u / 256 % 16), hexD (u / 16 % 16), hexD (u % 16)]

/-- UTF-16 code units of a code point (astral code points become a surrogate pair) -/
def toUnits (c : Nat) : List Nat :=
  if c < 0x10000 then [c] else [0xD800 + (c - 0x10000) / 1024 % 1024, 0xDC00 + (c - 0x10000) % 1024]

/-- escape of one 16-bit unit (`ESCAPE_ASCII` / `ESCAPE_DCT` of `json.encoder`) -/
def escUnit (u : Nat) : Bs :=
  if u = 0x22 then [0x5C, 0x22]          -- \"
  else if u = 0x5C then [0x5C, 0x5C]     -- \\
  else if u = 0x0A then [0x5C, 0x6E]     -- \n
  else if u = 0x0D then [0x5C, 0x72]     -- \r
  else if u = 0x09 then [0x5C, 0x74]     -- \t
  else if u = 0x08 then [0x5C, 0x62]     -- \b
  else if u = 0x0C then [0x5C, 0x66]     -- \f
  else if 0x20 ≤ u ∧ u ≤ 0x7E then [u]
  else 0x5C :: 0x75 :: hex4 u            -- \uXXXX

def escBody (s : Str) : Bs := (s.flatMap toUnits).flatMap escUnit

/-- the JSON string literal for `s` -/
def jsonStr (s : Str) : Bs := 0x22 :: (escBody s ++ [0x22])

/-! ### `json.loads` string scanner (`py_scanstring`, strict) on ASCII input -/

def unhexD (c : Nat) : Option Nat :=
  if 48 ≤ c ∧ c ≤ 57 then some (c - 48)
  else if 97 ≤ c ∧ c ≤ 102 then some (c - 87)
  else if 65 ≤ c ∧ c ≤ 70 then some (c - 55)
  else none

/-- the `BACKSLASH` table -/
def unesc1 (e : Nat) : Option Nat :=
  if e = 0x22 then some 0x22
  else if e = 0x5C then some 0x5C
  else if e = 0x2F then some 0x2F
  else if e = 0x62 then some 0x08
  else if e = 0x66 then some 0x0C
  else if e = 0x6E then some 0x0A
  else if e = 0x72 then some 0x0D
  else if e = 0x74 then some 0x09
  else none

def consUnit (u : Nat) (r : Option (List Nat × Bs)) : Option (List Nat × Bs) :=
  r.map (fun p => (u :: p.1, p.2))

/-- the body of a string literal (after the opening quote) up to and including the closing quote:
    the 16-bit units it denotes and what follows the literal.  Raw control characters and non-ASCII bytes
    are rejected (the writer never produces them). -/
def scanUnits : Bs → Option (List Nat × Bs)
  | [] => none
  | b :: rest =>
    if b = 0x22 then some ([], rest)
    else if b = 0x5C then
      match rest with
      | [] => none
      | e :: rest' =>
        if e = 0x75 then
          match rest' with
          | a :: b' :: c :: d :: rest'' =>
            match unhexD a, unhexD b', unhexD c, unhexD d with
            | some x3, some x2, some x1, some x0 => consUnit (x3 * 4096 + x2 * 256 + x1 * 16 + x0) (scanUnits rest'')
            | _, _, _, _ => none
          | _ => none
        else
          match unesc1 e with
          | some u => consUnit u (scanUnits rest')
          | none => none
    else if b < 0x20 ∨ 0x80 ≤ b then none
    else consUnit b (scanUnits rest)

/-- an escaped high surrogate directly followed by an escaped low surrogate is one astral code point;
    any other unit stands for itself -/
def combine : List Nat → List Nat
  | [] => []
  | [u] => [u]
  | h :: l :: rest =>
    if 0xD800 ≤ h ∧ h ≤ 0xDBFF ∧ 0xDC00 ≤ l ∧ l ≤ 0xDFFF then
      (0x10000 + (h - 0xD800) * 1024 + (l - 0xDC00)) :: combine rest
    else h :: combine (l :: rest)
termination_by l => l.length

/-- a JSON string literal at the front of `b`: its text and the rest -/
def parseStr : Bs → Option (Str × Bs)
  | 0x22 :: rest => (scanUnits rest).map (fun p => (combine p.1, p.2))
  | _ => none

/-! ### numbers -/

/-- `str(n)` -/
def natDec (n : Nat) : Bs := if n < 10 then [48 + n] else natDec (n / 10) ++ [48 + n % 10]

def isDigit (c : Nat) : Bool := 48 ≤ c && c ≤ 57

def digitsVal (ds : Bs) : Nat := ds.foldl (fun acc d => acc * 10 + (d - 48)) 0

/-- maximal non-empty run of decimal digits at the front -/
def parseNat (b : Bs) : Option (Nat × Bs) :=
  let ds := b.takeWhile isDigit
  if ds.isEmpty then none else some (digitsVal ds, b.dropWhile isDigit)

/-! ### the record and its line -/

structure Rec where
  module : Str
  host : Str
  data : Str
  datetime : Str
  prio : Nat
  tags : Option (List Str)
  line : Str
  stacktrace : Option Str
  levelNo : Nat
  levelName : Str
  funcName : Str
deriving DecidableEq, Repr

/-- no high surrogate is directly followed by a low surrogate -/
def NoPair : Str → Prop
  | [] => True
  | [_] => True
  | a :: b :: t => ¬ ((0xD800 ≤ a ∧ a ≤ 0xDBFF) ∧ (0xDC00 ≤ b ∧ b ≤ 0xDFFF)) ∧ NoPair (b :: t)

/-- text that survives the JSON round trip: code points below 0x110000 with no adjacent high + low surrogate.
    Every valid Unicode text (scalar values only) is of this kind; so is a Python `str` with lone surrogates. -/
def okText (s : Str) : Prop := (∀ c ∈ s, c < 0x110000) ∧ NoPair s

/-- every text field is `okText` -/
def Rec.WF (r : Rec) : Prop :=
  okText r.module ∧ okText r.host ∧ okText r.data ∧ okText r.datetime ∧ (∀ t ∈ r.tags, ∀ s ∈ t, okText s) ∧
  okText r.line ∧ (∀ s ∈ r.stacktrace, okText s) ∧ okText r.levelName ∧ okText r.funcName

/-- every text field is valid Unicode text (scalar values only) -/
def Rec.Scalar (r : Rec) : Prop :=
  (∀ c ∈ r.module, isScalar c) ∧ (∀ c ∈ r.host, isScalar c) ∧ (∀ c ∈ r.data, isScalar c) ∧
  (∀ c ∈ r.datetime, isScalar c) ∧ (∀ t ∈ r.tags, ∀ s ∈ t, ∀ c ∈ s, isScalar c) ∧ (∀ c ∈ r.line, isScalar c) ∧
  (∀ s ∈ r.stacktrace, ∀ c ∈ s, isScalar c) ∧ (∀ c ∈ r.levelName, isScalar c) ∧ (∀ c ∈ r.funcName, isScalar c)

/-- `{"module": ` -/
def kModule : Bs := [123, 34, 109, 111, 100, 117, 108, 101, 34, 58, 32]
/-- `, "host": ` -/
def kHost : Bs := [44, 32, 34, 104, 111, 115, 116, 34, 58, 32]
/-- `, "data": ` -/
def kData : Bs := [44, 32, 34, 100, 97, 116, 97, 34, 58, 32]
/-- `, "datetime": ` -/
def kDatetime : Bs := [44, 32, 34, 100, 97, 116, 101, 116, 105, 109, 101, 34, 58, 32]
/-- `, "priority": ` -/
def kPriority : Bs := [44, 32, 34, 112, 114, 105, 111, 114, 105, 116, 121, 34, 58, 32]
/-- `, "version": 2, "tags": ` -/
def kVersionTags : Bs := [44, 32, 34, 118, 101, 114, 115, 105, 111, 110, 34, 58, 32, 50, 44, 32, 34, 116, 97, 103, 115, 34, 58, 32]
/-- `, "line": ` -/
def kLine : Bs := [44, 32, 34, 108, 105, 110, 101, 34, 58, 32]
/-- `, "stacktrace": ` -/
def kStack : Bs := [44, 32, 34, 115, 116, 97, 99, 107, 116, 114, 97, 99, 101, 34, 58, 32]
/-- `, "_python_level_no": ` -/
def kLevelNo : Bs := [44, 32, 34, 95, 112, 121, 116, 104, 111, 110, 95, 108, 101, 118, 101, 108, 95, 110, 111, 34, 58, 32]
/-- `, "_python_level_name": ` -/
def kLevelName : Bs := [44, 32, 34, 95, 112, 121, 116, 104, 111, 110, 95, 108, 101, 118, 101, 108, 95, 110, 97, 109, 101, 34, 58, 32]
/-- `, "_python_func_name": ` -/
def kFuncName : Bs := [44, 32, 34, 95, 112, 121, 116, 104, 111, 110, 95, 102, 117, 110, 99, 95, 110, 97, 109, 101, 34, 58, 32]
/-- `null` -/
def kNull : Bs := [110, 117, 108, 108]
/-- `, ` -/
def kSep : Bs := [44, 32]

def NL : Nat := 10

def jsonOptStr : Option Str → Bs
  | none => kNull
  | some s => jsonStr s

def jsonTags : Option (List Str) → Bs
  | none => kNull
  | some [] => [91, 93]
  | some (s :: ss) => 91 :: (jsonStr s ++ (ss.flatMap (fun t => kSep ++ jsonStr t) ++ [93]))

/-- `json.dumps(dataclasses.asdict(_PenlogRecordV2(...)))` -/
def json (r : Rec) : Bs :=
  kModule ++ (jsonStr r.module ++ (kHost ++ (jsonStr r.host ++ (kData ++ (jsonStr r.data ++
  (kDatetime ++ (jsonStr r.datetime ++ (kPriority ++ (natDec r.prio ++ (kVersionTags ++ (jsonTags r.tags ++
  (kLine ++ (jsonStr r.line ++ (kStack ++ (jsonOptStr r.stacktrace ++ (kLevelNo ++ (natDec r.levelNo ++
  (kLevelName ++ (jsonStr r.levelName ++ (kFuncName ++ (jsonStr r.funcName ++ [125])))))))))))))))))))))

/-- `<p>` -/
def prefixOf (p : Nat) : Bs := 60 :: (natDec p ++ [62])

/-- one log line as `_ZstdFileHandler.emit` writes it (`pfx = true`), or the same line without the
    syslog-style priority prefix (`pfx = false`; `hr` accepts both) -/
def writeLine (pfx : Bool) (r : Rec) : Bs :=
  (if pfx then prefixOf r.prio else []) ++ (json r ++ [NL])

/-- content of the (decompressed) log file -/
def fileOf (pfx : Bool) (rs : List Rec) : Bs := rs.flatMap (writeLine pfx)

/-! ### parsing a line (`PenlogRecord.parse_priority`, `parse_json`) -/

def expect : Bs → Bs → Option Bs
  | [], b => some b
  | k :: ks, c :: b => if k = c then expect ks b else none
  | _ :: _, [] => none

/-- `<digits>` at the front: the priority and the rest of the line -/
def parsePrefix : Bs → Option (Nat × Bs)
  | 60 :: rest =>
    match parseNat rest with
    | some (p, 62 :: rest') => some (p, rest')
    | _ => none
  | _ => none

def parseOptStr (b : Bs) : Option (Option Str × Bs) :=
  match b with
  | 110 :: _ => (expect kNull b).map (fun r => (none, r))
  | _ => (parseStr b).map (fun p => (some p.1, p.2))

/-- `(", " string)* "]"` -/
def parseItems : Nat → Bs → Option (List Str × Bs)
  | 0, _ => none
  | fuel + 1, b =>
    match b with
    | 93 :: rest => some ([], rest)
    | 44 :: 32 :: rest =>
      match parseStr rest with
      | some (s, r) =>
        match parseItems fuel r with
        | some (ss, r') => some (s :: ss, r')
        | none => none
      | none => none
    | _ => none

def parseTags (b : Bs) : Option (Option (List Str) × Bs) :=
  match b with
  | 110 :: _ => (expect kNull b).map (fun r => (none, r))
  | 91 :: 93 :: rest => some (some [], rest)
  | 91 :: rest =>
    match parseStr rest with
    | some (s, r) =>
      match parseItems (r.length + 1) r with
      | some (ss, r') => some (some (s :: ss), r')
      | none => none
    | none => none
  | _ => none

/-- the JSON object of the writer's shape (keys in the writer's order, `version` 2), optionally followed by
    the line terminator -/
def parseJson (b : Bs) : Option Rec := do
  let b ← expect kModule b
  let (module, b) ← parseStr b
  let b ← expect kHost b
  let (host, b) ← parseStr b
  let b ← expect kData b
  let (data, b) ← parseStr b
  let b ← expect kDatetime b
  let (datetime, b) ← parseStr b
  let b ← expect kPriority b
  let (prio, b) ← parseNat b
  let b ← expect kVersionTags b
  let (tags, b) ← parseTags b
  let b ← expect kLine b
  let (line, b) ← parseStr b
  let b ← expect kStack b
  let (stacktrace, b) ← parseOptStr b
  let b ← expect kLevelNo b
  let (levelNo, b) ← parseNat b
  let b ← expect kLevelName b
  let (levelName, b) ← parseStr b
  let b ← expect kFuncName b
  let (funcName, b) ← parseStr b
  let b ← expect [125] b
  if b = [] ∨ b = [NL] then
    some { module, host, data, datetime, prio, tags, line, stacktrace, levelNo, levelName, funcName }
  else none

/-- `PenlogRecord.parse_json`: drop the prefix if the line starts with `<`, parse the object -/
def parseLine (line : Bs) : Option Rec :=
  match line with
  | 60 :: _ => match parsePrefix line with
    | some (_, rest) => parseJson rest
    | none => none
  | _ => parseJson line

/-- `PenlogReader.current_priority`: the prefix when there is one, else the record's own priority -/
def linePrio (line : Bs) : Option Nat :=
  match line with
  | 60 :: _ => (parsePrefix line).map (·.1)
  | _ => (parseJson line).map (·.prio)

/-! ### byte-level reader: `readline`, offset table -/

/-- `readline()`: up to and including the first newline (or to the end), and what follows -/
def takeLine : Bs → Bs × Bs
  | [] => ([], [])
  | b :: rest =>
    if b = NL then ([NL], rest)
    else
      let r := takeLine rest
      (b :: r.1, r.2)

/-- repeated `readline()` until it returns `b""` -/
def splitLines : Bs → List Bs
  | [] => []
  | b :: rest =>
    if b = NL then [NL] :: splitLines rest
    else match splitLines rest with
      | [] => [[b]]
      | l :: ls => (b :: l) :: ls

def offsetsFrom (pos : Nat) : List Bs → List Nat
  | [] => []
  | l :: ls => pos :: offsetsFrom (pos + l.length) ls

/-- `_parse_file_structure` from the start of the file: start offset of every record -/
def offsets (file : Bs) : List Nat := offsetsFrom 0 (splitLines file)

/-- `seek(off); readline()` -/
def readAt (file : Bs) (off : Nat) : Bs := (takeLine (file.drop off)).1

/-- record `i` through the offset table -/
def lineAt (file : Bs) (i : Nat) : Bs := readAt file ((offsets file).getD i 0)

/-! ### navigation -/

inductive Mode
  | forward
  | reverse
  | offset (k : Nat)   -- forward from record k
  | tail (n : Nat)     -- the last n lines (`hr --tail -n`)
  | head (n : Nat)     -- the first n selected records (`hr --head -n`)
deriving DecidableEq, Repr

/-- the record indices a mode walks over, in order -/
def visit (len : Nat) : Mode → List Nat
  | .forward => List.range len
  | .head _ => List.range len
  | .reverse => (List.range len).reverse
  | .offset k => (List.range len).drop k
  | .tail n => (List.range len).drop (len - n)

def passes (file : Bs) (p : Nat) (i : Nat) : Bool :=
  match linePrio (lineAt file i) with
  | some q => q ≤ p
  | none => false

/-- indices of the records yielded, in the order yielded -/
def select (file : Bs) (m : Mode) (p : Nat) : List Nat :=
  let sel := (visit (offsets file).length m).filter (passes file p)
  match m with
  | .head n => sel.take n
  | _ => sel

/-- the records yielded -/
def records (file : Bs) (m : Mode) (p : Nat) : List (Option Rec) :=
  (select file m p).map (fun i => parseLine (lineAt file i))

/-- `len(reader)` -/
def len (file : Bs) : Nat := (offsets file).length

/-! executable versions that build the offset table once (`_parse_file_structure` runs once per reader);
    equal to the definitions above by unfolding (`select_eq_selectFast`, `records_eq_recordsFast`);
    the driver runs these -/

def passesWith (file : Bs) (offs : List Nat) (p : Nat) (i : Nat) : Bool :=
  match linePrio (readAt file (offs.getD i 0)) with
  | some q => q ≤ p
  | none => false

def selectFast (file : Bs) (m : Mode) (p : Nat) : List Nat :=
  let offs := offsets file
  let sel := (visit offs.length m).filter (passesWith file offs p)
  match m with
  | .head n => sel.take n
  | _ => sel

def recordsFast (file : Bs) (m : Mode) (p : Nat) : List (Option Rec) :=
  let offs := offsets file
  (selectFast file m p).map (fun i => parseLine (readAt file (offs.getD i 0)))

theorem select_eq_selectFast (file : Bs) (m : Mode) (p : Nat) : select file m p = selectFast file m p := rfl

theorem records_eq_recordsFast (file : Bs) (m : Mode) (p : Nat) : records file m p = recordsFast file m p := rfl

/-! ### levels (`PenlogPriority.from_level` / `to_level`) -/

def fromLevel (l : Nat) : Option Nat :=
  if l = 5 then some 8 else if l = 10 then some 7 else if l = 20 then some 6 else if l = 25 then some 5
  else if l = 30 then some 4 else if l = 40 then some 3 else if l = 50 then some 2 else none

def toLevel (p : Nat) : Option Nat :=
  if p = 8 then some 5 else if p = 7 then some 10 else if p = 6 then some 20 else if p = 5 then some 25
  else if p = 4 then some 30 else if p = 3 then some 40 else if p = 2 then some 50 else none

def levels : List Nat := [5, 10, 20, 25, 30, 40, 50]

end Gallia.Penlog
