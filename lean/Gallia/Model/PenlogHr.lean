import Gallia.Model.PenlogSchema
/-
  C17 — the `hr` command (`src/gallia/cli/hr.py`) and the container handling of `PenlogReader`
  (`_prepare_for_mmap`).

  * `hrPlan : List Str → Outcome`: the argument vector as `argparse` (CPython 3.12.1) reads it for the parser
    built in `parse_args()`: exact and abbreviated long options, `--opt=value`, `-nVALUE`, clusters of short
    flags (`-tn5`), `--`, negative numbers as values, the one positional `FILE+` (only the first run of
    positionals is accepted), the mutually exclusive group `--tail / --head / --reverse`, `type=` conversions
    (`int`, `PenlogPriority.from_str`), `choices`, `-h`.  Outcomes: a `Plan`, usage error (exit 2), help (exit 0).
  * `detect`: which decompressor `PenlogReader` uses for a path (by `Path.suffix`, only for regular files).
  * `hrRun`: `_main()` over a file system and an environment of trusted components (`json.loads`,
    zstandard, gzip as functions `Env`): files in order, "not a regular file" -> 1, the reader's navigation for
    the chosen mode (`walk` over the offset table of `Model/Penlog.lean`), records up to the first exception,
    `main()`'s exit code for that exception.

  Core Lean only.
-/
namespace Gallia.Penlog

/-! ### `int(str)` and `PenlogPriority.from_str` (ASCII) -/

def isWs (c : Nat) : Bool := (9 ≤ c && c ≤ 13) || c == 32

def stripWs (s : Str) : Str := ((s.dropWhile isWs).reverse.dropWhile isWs).reverse

def noDoubleUnderscore : Str → Bool
  | 95 :: 95 :: _ => false
  | _ :: t => noDoubleUnderscore t
  | [] => true

/-- `digit (["_"] digit)*` -/
def intBody (t : Str) : Option Nat :=
  if isDigit (t.head?.getD 0) && isDigit (t.getLast?.getD 0) && t.all (fun c => isDigit c || c == 95) &&
      noDoubleUnderscore t then
    some (digitsVal (t.filter isDigit))
  else none

/-- `int(s)` for ASCII `s`: surrounding whitespace, a sign, decimal digits with single underscores between them -/
def pyInt (s : Str) : Option Int :=
  match stripWs s with
  | [] => none
  | 45 :: t => (intBody t).map (fun n => -(n : Int))
  | 43 :: t => (intBody t).map (fun n => (n : Int))
  | t => (intBody t).map (fun n => (n : Int))

def lowerAscii (c : Nat) : Nat := if 65 ≤ c ∧ c ≤ 90 then c + 32 else c

/-- the priority names of `PenlogPriority.from_str`, by value -/
def prioNames : List Str :=
  [[101, 109, 101, 114, 103, 101, 110, 99, 121], [97, 108, 101, 114, 116], [99, 114, 105, 116, 105, 99, 97, 108],
   [101, 114, 114, 111, 114], [119, 97, 114, 110, 105, 110, 103], [110, 111, 116, 105, 99, 101], [105, 110, 102, 111],
   [100, 101, 98, 117, 103], [116, 114, 97, 99, 101]]

/-- `PenlogPriority.from_str`: a decimal number 0..8 (`int(s, 0)`: no leading zeros unless all zeros) or a
    priority name in any case; `none` = ValueError -/
def fromStr (s : Str) : Option Nat :=
  if !s.isEmpty && s.all isDigit then
    if s.head? = some 48 && s.any (· != 48) then none
    else
      let v := digitsVal s
      if v ≤ 8 then some v else none
  else
    let i := prioNames.idxOf (s.map lowerAscii)
    if i < prioNames.length then some i else none

/-! ### the argument vector -/

inductive OptId
  | help | prio | tail | head | reverse | lines | color
deriving DecidableEq, Repr

def OptId.takesArg : OptId → Bool
  | .prio | .lines | .color => true
  | _ => false

/-- `parser._option_string_actions`, long option strings -/
def longOpts : List (Str × OptId) :=
  [([45, 45, 104, 101, 108, 112], .help), ([45, 45, 112, 114, 105, 111, 114, 105, 116, 121], .prio),
   ([45, 45, 116, 97, 105, 108], .tail), ([45, 45, 104, 101, 97, 100], .head),
   ([45, 45, 114, 101, 118, 101, 114, 115, 101], .reverse), ([45, 45, 108, 105, 110, 101, 115], .lines),
   ([45, 45, 99, 111, 108, 111, 114], .color)]

/-- short option strings -/
def shortOpts : List (Str × OptId) :=
  [([45, 104], .help), ([45, 112], .prio), ([45, 116], .tail), ([45, 114], .reverse), ([45, 110], .lines)]

def lookupOpt (t : Str) : Option (OptId × Bool) :=
  match shortOpts.find? (·.1 == t) with
  | some p => some (p.2, false)
  | none => (longOpts.find? (·.1 == t)).map (fun p => (p.2, true))

/-- `--color` choices -/
def colorChoices : List Str := [[97, 117, 116, 111], [97, 108, 119, 97, 121, 115], [110, 101, 118, 101, 114]]

/-- how `_parse_known_args` classifies one argument string (before any `--`) -/
inductive Cls
  | arg (s : Str)                                          -- 'A'
  | opt (id : OptId) (long : Bool) (explicit : Option Str)  -- 'O', a known option
  | unk                                                    -- 'O', no such option
  | dd                                                     -- '--'
deriving DecidableEq, Repr

/-- `s.split('=', 1)` when `=` occurs -/
def splitEq : Str → Option (Str × Str)
  | [] => none
  | c :: t => if c == 61 then some ([], t) else (splitEq t).map (fun p => (c :: p.1, p.2))

/-- `^-\d+$|^-\d*\.\d+$` -/
def negNumber (t : Str) : Bool :=
  match t with
  | 45 :: r =>
    (!r.isEmpty && r.all isDigit) ||
      (let a := r.dropWhile isDigit
       match a with
       | 46 :: f => !f.isEmpty && f.all isDigit
       | _ => false)
  | _ => false

/-- one argument string on its own: an argument, a known option, an unknown option -/
inductive Tok
  | arg (s : Str)
  | opt (id : OptId) (long : Bool) (explicit : Option Str)
  | unk
deriving DecidableEq, Repr

def Tok.toCls : Tok → Cls
  | .arg s => .arg s
  | .opt id long e => .opt id long e
  | .unk => .unk

/-- `_get_option_tuples` -/
def optionTuples (t : Str) : List Tok :=
  if t.getD 1 0 == 45 then
    -- two prefix characters: abbreviations of long options, split at '='
    let (pre, e) := match splitEq t with
      | some (a, b) => (a, some b)
      | none => (t, none)
    (longOpts.filter (fun p => pre.isPrefixOf p.1)).map (fun p => Tok.opt p.2 true e)
  else
    -- one prefix character: a short option with its value attached
    ((shortOpts.filter (fun p => p.1 == t.take 2)).map (fun p => Tok.opt p.2 false (some (t.drop 2)))) ++
    (((shortOpts ++ longOpts).filter (fun p => t.isPrefixOf p.1 && p.1 != t.take 2)).map
      (fun p => Tok.opt p.2 (p.1.getD 1 0 == 45) none))

/-- `_parse_optional`; `none` = "ambiguous option" (usage error while the arguments are being classified) -/
def classifyTok (t : Str) : Option Tok :=
  match t with
  | [] => some (.arg t)
  | c :: _ =>
    if c ≠ 45 then some (.arg t)
    else match lookupOpt t with
    | some (id, long) => some (.opt id long none)
    | none =>
      if t.length = 1 then some (.arg t)
      else
        let viaEq : Option Tok := match splitEq t with
          | some (o, e) => (lookupOpt o).map (fun p => Tok.opt p.1 p.2 (some e))
          | none => none
        match viaEq with
        | some c => some c
        | none =>
          match optionTuples t with
          | _ :: _ :: _ => none
          | [c] => some c
          | [] =>
            if negNumber t then some (.arg t)
            else if t.contains 32 then some (.arg t)
            else some .unk

def classify (t : Str) : Option Cls := (classifyTok t).map Tok.toCls

/-- all argument strings; everything after the first `--` is an argument -/
def classifyAll : List Str → Option (List Cls)
  | [] => some []
  | t :: rest =>
    if t = [45, 45] then some (.dd :: rest.map .arg)
    else match classify t, classifyAll rest with
      | some c, some cs => some (c :: cs)
      | _, _ => none

/-- the pieces between slashes -/
def splitSlash : Str → List Str
  | [] => [[]]
  | c :: t =>
    if c == 47 then [] :: splitSlash t
    else match splitSlash t with
      | [] => [[c]]
      | h :: r => (c :: h) :: r

/-- the components `pathlib` keeps: empty ones and `.` are dropped -/
def pathComps (p : Str) : List Str := (splitSlash p).filter (fun c => !c.isEmpty && c != [46])

def joinSlash : List Str → Str
  | [] => []
  | [c] => c
  | c :: t => c ++ (47 :: joinSlash t)

/-- `str(Path(p))` (POSIX): what `type=Path` makes of an argument string -/
def normPath (p : Str) : Str :=
  let root : Str := match p with
    | 47 :: 47 :: 47 :: _ => [47]
    | 47 :: 47 :: _ => [47, 47]
    | 47 :: _ => [47]
    | _ => []
  let r := root ++ joinSlash (pathComps p)
  if r.isEmpty then [46] else r

inductive HrMode
  | forward | reverse | head | tail
deriving DecidableEq, Repr

inductive Color
  | auto | always | never
deriving DecidableEq, Repr

/-- what `_main` works from -/
structure Plan where
  files : List Str
  mode : HrMode
  n : Int
  prio : Nat
  color : Color
deriving DecidableEq, Repr

inductive Outcome
  | plan (p : Plan)
  | usage          -- `parser.error(...)`: exit code 2
  | help           -- `-h`: exit code 0, nothing read
deriving DecidableEq, Repr

inductive FilesSt
  | unset
  | running (acc : List Str)   -- inside the run of positionals that `FILE+` takes
  | done (fs : List Str)
deriving DecidableEq, Repr

structure ArgSt where
  prio : Nat := 6
  n : Int := 100
  color : Color := .auto
  tail : Bool := false
  head : Bool := false
  reverse : Bool := false
  files : FilesSt := .unset
  extras : Bool := false
deriving DecidableEq, Repr

/-- an option string ends the current run of positionals -/
def ArgSt.close (st : ArgSt) : ArgSt :=
  match st.files with
  | .running acc => { st with files := .done acc }
  | _ => st

/-- after the last argument: required `FILE`, unrecognized arguments -/
def finish (st : ArgSt) : Outcome :=
  if st.extras then .usage
  else
    let mode : HrMode := if st.tail then .tail else if st.head then .head else if st.reverse then .reverse else .forward
    match st.files with
    | .unset => .usage
    | .running fs => .plan { files := fs.map normPath, mode := mode, n := st.n, prio := st.prio, color := st.color }
    | .done fs => .plan { files := fs.map normPath, mode := mode, n := st.n, prio := st.prio, color := st.color }

/-- a flag of the mutually exclusive group is taken: error when another member was seen -/
def setFlag (st : ArgSt) (id : OptId) : Option ArgSt :=
  match id with
  | .tail => if st.head || st.reverse then none else some { st with tail := true }
  | .head => if st.tail || st.reverse then none else some { st with head := true }
  | .reverse => if st.tail || st.head then none else some { st with reverse := true }
  | _ => some st

/-- `type=` conversion and `choices` of an option that takes a value -/
def setValue (st : ArgSt) (id : OptId) (v : Str) : Option ArgSt :=
  match id with
  | .prio => (fromStr v).map (fun p => { st with prio := p })
  | .lines => (pyInt v).map (fun n => { st with n := n })
  | .color =>
    if v = [97, 117, 116, 111] then some { st with color := .auto }
    else if v = [97, 108, 119, 97, 121, 115] then some { st with color := .always }
    else if v = [110, 101, 118, 101, 114] then some { st with color := .never }
    else none
  | _ => some st

/-- the characters after a short flag inside one argument string (`-tn5`): further short options -/
def clusterTail : Str → Option (List OptId × OptId × Option Str)
  | [] => none
  | c :: rest =>
    match shortOpts.find? (·.1 == [45, c]) with
    | none => none
    | some p =>
      if rest.isEmpty then some ([], p.2, none)
      else if p.2.takesArg then some ([], p.2, some rest)
      else (clusterTail rest).map (fun r => (p.2 :: r.1, r.2))

/-- `consume_optional`, the loop over one argument string: the flags packed before the last option of a cluster,
    that option, and its attached value; `none` = "ignored explicit argument" -/
def cluster (id : OptId) (long : Bool) : Option Str → Option (List OptId × OptId × Option Str)
  | none => some ([], id, none)
  | some x =>
    if id.takesArg then some ([], id, some x)
    else if long then none
    else (clusterTail x).map (fun r => (id :: r.1, r.2))

/-- the flags of a cluster in order; `.inl` = stop with that outcome -/
def applyFlags (st : ArgSt) : List OptId → Outcome ⊕ ArgSt
  | [] => .inr st
  | .help :: _ => .inl .help
  | f :: fs =>
    match setFlag st f with
    | none => .inl .usage
    | some st' => applyFlags st' fs

/-- `_parse_known_args` over the classified argument strings -/
def runArgs (st : ArgSt) : List Cls → Outcome
  | [] => finish st
  | .arg s :: rest =>
    match st.files with
    | .unset => runArgs { st with files := .running [s] } rest
    | .running acc => runArgs { st with files := .running (acc ++ [s]) } rest
    | .done _ => runArgs { st with extras := true } rest
  | .dd :: rest =>
    -- everything after `--` is an argument; the first `--` is dropped from the values
    let vals := rest.filterMap (fun c => match c with | .arg s => some s | _ => none)
    match st.files with
    | .unset => if vals.isEmpty then finish { st with extras := true } else finish { st with files := .done vals }
    | .running acc => finish { st with files := .done (acc ++ vals) }
    | .done _ => finish { st with extras := true }
  | .unk :: rest => runArgs { st.close with extras := true } rest
  | .opt id long e :: rest =>
    match cluster id long e with
    | none => .usage
    | some (flags, last, val) =>
      -- the value of the last option: attached, or the next argument string ("expected one argument" otherwise);
      -- only then are the actions taken, in order
      -- how many further argument strings the last option takes (0 or 1); `none` = "expected one argument"
      let taken : Option (Option Str × Nat) :=
        if last.takesArg then
          match val with
          | some v => some (some v, 0)
          | none =>
            match rest with
            | .arg v :: _ => some (some v, 1)
            | _ => none
        else some (none, 0)
      match taken with
      | none => .usage
      | some (v, k) =>
        match applyFlags st.close flags with
        | .inl o => o
        | .inr st1 =>
          match v with
          | some v =>
            match setValue st1 last v with
            | some st2 => runArgs st2 (rest.drop k)
            | none => .usage
          | none =>
            match applyFlags st1 [last] with
            | .inl o => o
            | .inr st2 => runArgs st2 rest
termination_by l => l.length
decreasing_by
  all_goals simp_wf
  all_goals omega

/-- `parse_args()` on `sys.argv[1:]` -/
def hrPlan (argv : List Str) : Outcome :=
  match classifyAll argv with
  | none => .usage
  | some cs => runArgs {} cs

/-! ### containers: `PenlogReader._prepare_for_mmap` -/

inductive Kind
  | plain | zst | gz
deriving DecidableEq, Repr

/-- `Path(p).name` -/
def pyName (p : Str) : Str := (pathComps p).getLast?.getD []

/-- index of the last `.` (`name.rfind('.')`) -/
def lastDot : Str → Option Nat
  | [] => none
  | c :: t =>
    match lastDot t with
    | some i => some (i + 1)
    | none => if c == 46 then some 0 else none

/-- `PurePath.suffix` of a name: from the last dot, unless that dot is the first or the last character -/
def pySuffix (name : Str) : Str :=
  match lastDot name with
  | none => []
  | some i => if 0 < i ∧ i < name.length - 1 then name.drop i else []

def sufZst : Str := [46, 122, 115, 116]
def sufGz : Str := [46, 103, 122]
def dash : Str := [45]

/-- the decompressor chosen for a regular file -/
def detect (path : Str) : Kind :=
  let s := pySuffix (pyName path)
  if s = sufZst then .zst else if s = sufGz then .gz else .plain

/-- what a path names -/
inductive Node
  | missing
  | dir
  | file (raw : Bs)     -- a regular file (also through a symlink)
  | fifo (raw : Bs)     -- a named pipe delivering `raw`
deriving DecidableEq, Repr

/-- `json.loads(line.decode())` -/
inductive LoadRes
  | undecodable          -- UnicodeDecodeError
  | invalid              -- json.JSONDecodeError
  | nonObject            -- a JSON value that is not an object
  | object (o : JObj)
deriving DecidableEq, Repr

/-- the trusted components, as functions -/
structure Env where
  loads : Bs → LoadRes
  zstDec : Bs → Option Bs     -- `ZstdDecompressor().copy_stream`, `none` = ZstdError
  gzDec : Bs → Option Bs      -- `gzip.open(...).read`, `none` = BadGzipFile / EOFError

inductive Opened
  | notRegular                     -- hr: "not a regular file", return 1
  | failed (e : Err)
  | content (b : Bs) (stdinLeft : Bs)
deriving DecidableEq, Repr

/-- the check in `_main` followed by `PenlogReader(path)`: the bytes that get mapped.
    `-` is standard input (a pipe: read once, nothing left for a second `-`). -/
def openPath (E : Env) (fs : Str → Node) (stdin : Bs) (path : Str) : Opened :=
  if path = dash then .content stdin []
  else match fs path with
    | .missing => .notRegular
    | .dir => .notRegular
    | .fifo raw => .content raw stdin
    | .file raw =>
      match detect path with
      | .plain => .content raw stdin
      | .zst => match E.zstDec raw with
        | some b => .content b stdin
        | none => .failed .zstd
      | .gz => match E.gzDec raw with
        | some b => .content b stdin
        | none => .failed .gzip

/-! ### one line: `parse_priority`, `parse_json` -/

def indexOf62 : Bs → Option Nat
  | [] => none
  | c :: t => if c == 62 then some 0 else (indexOf62 t).map (· + 1)

/-- `PenlogRecord.parse_json(line)` -/
def lineRecord (E : Env) (line : Bs) : Except Err PRec :=
  let body : Except Err Bs := match line with
    | 60 :: _ => match indexOf62 line with
      | some j => .ok (line.drop (j + 1))
      | none => .error .value
    | _ => .ok line
  match body with
  | .error e => .error e
  | .ok b =>
    match E.loads b with
    | .undecodable => .error .unicode
    | .invalid => .error .json
    | .nonObject => .error .type
    | .object o => readObj o

/-- `PenlogReader.current_priority`: the prefix `int(line[1:line.index(b">")])` when the line starts with `<`,
    else the priority of the parsed record -/
def linePrioE (E : Env) (line : Bs) : Except Err Int :=
  match line with
  | 60 :: _ => match indexOf62 line with
    | some j => match pyInt ((line.take j).drop 1) with
      | some p => .ok p
      | none => .error .value
    | none => .error .value
  | _ => (lineRecord E line).map (fun r => (r.priority : Int))

/-- what `hr` emits for one record: the record and its text -/
abbrev Shown := PRec × Str

/-- `for record in generator: print(record)` over the record indices `is` (`get i` = the line of record `i`),
    stopping silently after `limit` yielded records (`islice`) and at the first exception -/
def walkL (E : Env) (get : Nat → Bs) (p : Nat) : Option Nat → List Nat → List Shown × Option Err
  | _, [] => ([], none)
  | some 0, _ => ([], none)
  | lim, i :: rest =>
    let line := get i
    match linePrioE E line with
    | .error e => ([], some e)
    | .ok q =>
      if q ≤ (p : Int) then
        match lineRecord E line with
        | .error e => ([], some e)
        | .ok r =>
          match fmtRec r with
          | .error e => ([], some e)
          | .ok text =>
            let res := walkL E get p (lim.map (· - 1)) rest
            ((r, text) :: res.1, res.2)
      else walkL E get p lim rest

/-- the body of the `with PenlogReader(path)` block of `_main` for a log of `n` records -/
def hrOneL (E : Env) (plan : Plan) (n : Nat) (get : Nat → Bs) : List Shown × Option Err :=
  match plan.mode with
  | .forward => walkL E get plan.prio none (visit n .forward)
  | .reverse => walkL E get plan.prio none (visit n .reverse)
  | .head =>
    if plan.n < 0 then ([], some .value)        -- `islice(gen, negative)`
    else walkL E get plan.prio (some plan.n.toNat) (visit n .forward)
  | .tail =>
    -- `first = max(len(reader) - args.lines, 0)`; `records(offset=first)`
    let first : Int := max ((n : Int) - plan.n) 0
    if first > (n : Int) then ([], some .index)   -- `_record_offsets[first]`
    else walkL E get plan.prio none (visit n (.offset first.toNat))

/-- ... reading through the offset table of `Model/Penlog.lean` -/
def hrOne (E : Env) (plan : Plan) (file : Bs) : List Shown × Option Err :=
  hrOneL E plan (len file) (lineAt file)

/-- the same, building the offset table once (what the driver runs) -/
def hrOneFast (E : Env) (plan : Plan) (file : Bs) : List Shown × Option Err :=
  let offs := offsets file
  hrOneL E plan offs.length (fun i => readAt file (offs.getD i 0))

theorem hrOne_eq_hrOneFast (E : Env) (plan : Plan) (file : Bs) : hrOne E plan file = hrOneFast E plan file := rfl

/-- how `_main` / `main` end -/
inductive Exit
  | code (n : Nat)
  | raised (e : Err)
deriving DecidableEq, Repr

/-- the process exit code: `main()` maps JSONDecodeError to 65, any other exception is a traceback (1) -/
def Exit.status : Exit → Nat
  | .code n => n
  | .raised .json => 65
  | .raised _ => 1

/-- `_main()`: the files in order (`one` = the body of the `with` block) -/
def hrFilesW (one : Bs → List Shown × Option Err) (E : Env) (fs : Str → Node) : Bs → List Str → List Shown × Exit
  | _, [] => ([], .code 0)
  | stdin, f :: rest =>
    match openPath E fs stdin f with
    | .notRegular => ([], .code 1)
    | .failed e => ([], .raised e)
    | .content b stdin' =>
      match one b with
      | (out, some e) => (out, .raised e)
      | (out, none) =>
        let r := hrFilesW one E fs stdin' rest
        (out ++ r.1, r.2)

def hrFiles (E : Env) (fs : Str → Node) (plan : Plan) : Bs → List Str → List Shown × Exit :=
  hrFilesW (hrOne E plan) E fs

/-- `hr` with its standard output closed by the reader after `k` records (`hr ... | head`): the next `print`
    raises BrokenPipeError, which `main()` turns into exit code 0 -/
def pipeCut (k : Nat) (r : List Shown × Exit) : List Shown × Exit :=
  if r.1.length > k then (r.1.take k, .code 0) else r

/-- the whole command: argument vector, file system, standard input -/
def hrRun (E : Env) (fs : Str → Node) (stdin : Bs) (argv : List Str) : List Shown × Exit :=
  match hrPlan argv with
  | .usage => ([], .code 2)
  | .help => ([], .code 0)
  | .plan p => hrFiles E fs p stdin p.files

/-! ### the writer's lines under a concrete `json.loads` -/

/-- `json.loads` restricted to the writer's shape (the byte-level parser of `Model/Penlog.lean`) -/
def loadsWriter (b : Bs) : LoadRes :=
  match parseJson b with
  | some r => .object (recObj r)
  | none => .invalid

/-- the slice of the logged sequence a plan denotes (the oracle `hr_output_eq_slice` compares with) -/
def slice (m : HrMode) (n : Nat) (p : Nat) (rs : List Rec) : List Rec :=
  match m with
  | .forward => rs.filter (fun r => decide (r.prio ≤ p))
  | .reverse => (rs.filter (fun r => decide (r.prio ≤ p))).reverse
  | .head => (rs.filter (fun r => decide (r.prio ≤ p))).take n
  | .tail => (rs.drop (rs.length - n)).filter (fun r => decide (r.prio ≤ p))

end Gallia.Penlog
