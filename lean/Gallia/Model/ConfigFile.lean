/-
  C18 — the configuration *file* layer.

  Code side (what is modelled):
    config.py        `Config.get_value`: dotted key lookup in the parsed TOML document               (`getValue`)
                     `get_config_dirs` / `search_config`: which gallia.toml is picked                (`candidates`, `search`)
                     `get_git_root`: `git rev-parse --show-toplevel` = nearest ancestor with a .git  (`gitRoot`)
    command/config.py `GalliaBaseModel.__init_subclass__` / `attributes_from_config`: the key of an option is
                     `config_section + "." + name` (just `name` for the empty section); an option without a
                     section is not looked up at all                                                  (`configKey`)
    cli/gallia.py    `template()`: one `[section]` header per group, `name = <default>` for every registered
                     key that has a default, a commented line for the others                          (`templateDoc`)

  A TOML (or JSON) document is a tree. Tables are written entry by entry (`cons k v rest`), which keeps the
  type first order: structural recursion and `induction` work without nested-inductive machinery.
  Strings are `List Char`.
-/
namespace Gallia.Config

abbrev Str := List Char

/-- one element of a list-valued provider (argparse `nargs=*` token, TOML array element) -/
inductive Atom
  | str (s : Str)
  | int (i : Int)
  deriving DecidableEq, Repr

/-- a value that is not a table -/
inductive Leaf
  | null                              -- JSON only
  | bool (b : Bool)
  | int (i : Int)
  | str (s : Str)
  | flt (text : Str)                  -- a float, by its text
  | arr (l : List Atom)               -- array of strings / integers
  | arrs (l : List (List Int))        -- array of integer arrays
  | other (desc : Str)                -- anything else (dates, mixed arrays, ...)
  deriving DecidableEq, Repr

inductive Tree
  | leaf (v : Leaf)
  | nil                                           -- the empty table
  | cons (k : Str) (v : Tree) (rest : Tree)       -- the table `rest` with the entry `k = v` in front
  deriving DecidableEq, Repr

namespace Tree

/-- `isinstance(x, dict)` -/
def isTbl : Tree → Bool
  | .leaf _ => false
  | _ => true

/-- `dict.get(k)` (first entry wins; documents built by `setKey` never repeat a key) -/
def get? : Tree → Str → Option Tree
  | .cons k v rest, x => if k == x then some v else rest.get? x
  | _, _ => none

/-- `d[k] = f(d.get(k))`, keeping the position of an existing entry, appending a new one -/
def setKey (k : Str) (f : Option Tree → Tree) : Tree → Tree
  | .cons k' v rest => if k' == k then .cons k' (f (some v)) rest else .cons k' v (setKey k f rest)
  | _ => .cons k (f none) .nil

def keys : Tree → List Str
  | .cons k _ rest => k :: rest.keys
  | _ => []

end Tree

/-! ### `Config.get_value` -/

def splitOn (sep : Char) (s : Str) : List Str :=
  let (cur, acc) := s.foldr (fun c (p : Str × List Str) => if c == sep then ([], p.1 :: p.2) else (c :: p.1, p.2)) ([], [])
  cur :: acc

def intercalate (sep : Char) : List Str → Str
  | [] => []
  | [x] => x
  | x :: xs => x ++ sep :: intercalate sep xs

/-- the loop of `get_value`: `sub` is the dictionary the next part is looked up in (`none` once a part led to
    something that is not a table), `val` the value of the last part -/
def walk : List Str → Option Tree → Option Tree → Option (Option Tree)
  | [], _, val => some val
  | p :: ps, sub, _ =>
    match sub with
    | none => none                                   -- `if subdict is None: return default`
    | some d =>
      let v := d.get? p
      walk ps (match v with | some t => if t.isTbl then some t else none | none => none) v

/-- `Config.get_value(key)` with `default=None`: `none` = "not in the file". A value that is present is returned
    whatever it is - `false`, `0` and `""` included; a key that ends at a table returns the table -/
def getPath (doc : Tree) (parts : List Str) : Option Tree :=
  match walk parts (some doc) none with
  | some v => v
  | none => none

def getValue (doc : Tree) (key : Str) : Option Tree := getPath doc (splitOn '.' key)

/-! ### keys of options -/

/-- the gallia.toml key of option `name` declared in `section`; an option without a section has none -/
def configKey (sect : Option Str) (name : Str) : Option Str :=
  match sect with
  | none => none
  | some s => if s.isEmpty then some name else some (s ++ '.' :: name)

/-- the value gallia.toml gives option `name` (`attributes_from_config`) -/
def fileValue (doc : Tree) (sect : Option Str) (name : Str) : Option Tree :=
  (configKey sect name).bind (getValue doc)

def upper (s : Str) : Str := s.map Char.toUpper

/-- the environment variable of option `name` (`attributes_from_env`) -/
def envName (name : Str) : Str := "GALLIA_".toList ++ upper name

/-! ### documents written key by key (what `tomllib` makes of `[a.b]` headers followed by `name = value` lines) -/

/-- the table a path step descends into: the existing table, else a fresh one -/
def childTbl (old : Option Tree) : Tree :=
  match old with
  | some c => if c.isTbl then c else .nil
  | none => .nil

/-- set the value at a dotted path, creating the tables on the way -/
def setPath : List Str → Tree → Tree → Tree
  | [], v, _ => v
  | [k], v, t => t.setKey k (fun _ => v)
  | k :: ks, v, t => t.setKey k (fun old => setPath ks v (childTbl old))

/-- `template()`: every registered key with a default becomes `name = default` under its `[section]`; keys without
    a default are only listed in a comment -/
def templateDoc (registry : List (List Str × Option Tree)) : Tree :=
  registry.foldl (fun t e => match e.2 with | some d => setPath e.1 d t | none => t) .nil

/-- the keys the template mentions (set or commented) -/
def templateKeys (registry : List (List Str × Option Tree)) : List (List Str) := registry.map (·.1)

def isPrefix : List Str → List Str → Bool
  | [], _ => true
  | _ :: _, [] => false
  | a :: as, b :: bs => a == b && isPrefix as bs

/-- no key is a prefix of another one (`a.b` next to `a.b.c` would make `a.b` both a value and a table) and none
    is empty or repeated -/
def prefixFree : List (List Str) → Bool
  | [] => true
  | p :: ps => !p.isEmpty && ps.all (fun q => !isPrefix p q && !isPrefix q p) && prefixFree ps

/-! ### which gallia.toml is picked -/

structure Dir where
  hasGit : Bool         -- holds a `.git` that git accepts
  hasToml : Bool        -- holds a gallia.toml
  deriving DecidableEq, Repr

/-- state of the `GALLIA_CONFIG` variable -/
inductive EnvFile
  | unset
  | existing            -- names a file that exists
  | missing             -- names a path that does not exist
  deriving DecidableEq, Repr

structure World where
  chain : List Dir          -- the working directory first, then its parents up to the root
  envFile : EnvFile
  xdgSet : Bool             -- XDG_CONFIG_HOME is set (and not blank)
  xdgToml : Bool            -- $XDG_CONFIG_HOME/gallia/gallia.toml exists
  homeToml : Bool           -- ~/.config/gallia/gallia.toml exists
  extra : List Bool         -- `extra_paths`: which of them hold a gallia.toml
  deriving DecidableEq, Repr

/-- places a config file can come from -/
inductive Place
  | env                     -- the file GALLIA_CONFIG names
  | up (n : Nat)            -- the n-th directory of the chain (0 = working directory)
  | user                    -- the per-user config directory (`platformdirs.user_config_path("gallia")`)
  | extra (i : Nat)
  deriving DecidableEq, Repr

inductive Found
  | file (p : Place)
  | nothing
  | notFound                -- `FileNotFoundError`
  deriving DecidableEq, Repr

/-- `git rev-parse --show-toplevel`: the nearest directory, from the working directory upwards, with a `.git` -/
def gitRootFrom (n : Nat) : List Dir → Option Nat
  | [] => none
  | d :: ds => if d.hasGit then some n else gitRootFrom (n + 1) ds

def gitRoot (w : World) : Option Nat := gitRootFrom 0 w.chain

/-- `get_config_dirs() + extra_paths`, in search order -/
def candidates (w : World) : List Place :=
  [Place.up 0] ++ (match gitRoot w with | some n => [Place.up n] | none => []) ++ [Place.user]
    ++ (List.range w.extra.length).map Place.extra

def holds (w : World) : Place → Bool
  | .env => w.envFile == .existing
  | .up n => match w.chain[n]? with | some d => d.hasToml | none => false
  | .user => if w.xdgSet then w.xdgToml else w.homeToml
  | .extra i => w.extra.getD i false

/-- `search_config()` -/
def search (w : World) : Found :=
  match w.envFile with
  | .existing => .file .env
  | .missing => .notFound
  | .unset =>
    match (candidates w).find? (holds w) with
    | some p => .file p
    | none => .nothing

end Gallia.Config
