import Gallia.Model.DbLog
/-
  C11 — the other tables of the scan database and their keys (src/gallia/db/handler.py).

  One run writes, through the same `aiosqlite` connection,

    run_meta          `insert_run_meta`            INSERT, `self.meta = lastrowid`, commit
    address, scan_run `insert_scan_run`            INSERT OR IGNORE address; INSERT scan_run(address = (SELECT id ...), meta);
                                                   `self.scan_run = lastrowid`; commit
    discovery_run     `insert_discovery_run`       INSERT (meta), `self.discovery_run = lastrowid`, commit
    discovery_result  `insert_discovery_result`    INSERT OR IGNORE address; INSERT (address, run); commit
    session_transition `insert_session_transition` INSERT (run = self.scan_run, ...) — **no commit**
    scan_result       `insert_scan_result`         row with `run = self.scan_run` captured at call time, put on the write
                                                   queue; executed and committed later by the writer task
    UPDATEs           `complete_run_meta`, `insert_scan_run_properties_pre`, `complete_scan_run` (no key column), commit

  Every statement runs in the connection's single worker thread, so they are serialised; a statement that was handed to
  the thread is executed even when the awaiting task is cancelled meanwhile (aiosqlite), only the Python-side
  assignment (`self.meta = ...`) is then skipped.  All statements of the connection share one transaction: whoever
  commits next makes everything executed so far durable.

  The model keeps the key columns only (ids and references); payloads are opaque numbers.
-/
namespace Gallia.DbTables
open Gallia

structure Tables where
  runMeta : List Nat                          -- id
  address : List (Nat × Nat)                  -- (id, url)
  scanRun : List (Nat × Option Nat × Nat)     -- (id, address, meta)
  discoveryRun : List (Nat × Nat)             -- (id, meta)
  discoveryResult : List (Nat × Nat × Nat)    -- (id, run, address)
  scanResult : List (Nat × Nat × Nat)         -- (id, run, payload)
  sessionTransition : List (Nat × Nat)        -- (run, destination)
deriving DecidableEq, Repr

def Tables.empty : Tables := ⟨[], [], [], [], [], [], []⟩

/-- `integer primary key` without AUTOINCREMENT: one more than the largest id in the table -/
def nextId (ids : List Nat) : Nat := ids.foldl max 0 + 1

def Tables.addressIds (t : Tables) : List Nat := t.address.map (·.1)
def Tables.scanRunIds (t : Tables) : List Nat := t.scanRun.map (·.1)
def Tables.discoveryRunIds (t : Tables) : List Nat := t.discoveryRun.map (·.1)
def Tables.discoveryResultIds (t : Tables) : List Nat := t.discoveryResult.map (·.1)
def Tables.scanResultIds (t : Tables) : List Nat := t.scanResult.map (·.1)

/-- `SELECT id FROM address WHERE url = ?` (url is unique) -/
def Tables.addrId (t : Tables) (url : Nat) : Option Nat := (t.address.find? (·.2 == url)).map (·.1)

/-- the foreign keys of DB_SCHEMA (regenerated from the live schema: `Gen.C11Tables.foreignKeys`) -/
def Tables.fkOk (t : Tables) : Prop :=
  (∀ r ∈ t.scanRun, r.2.2 ∈ t.runMeta ∧ ∀ a, r.2.1 = some a → a ∈ t.addressIds) ∧
  (∀ r ∈ t.discoveryRun, r.2 ∈ t.runMeta) ∧
  (∀ r ∈ t.discoveryResult, r.2.1 ∈ t.discoveryRunIds ∧ r.2.2 ∈ t.addressIds) ∧
  (∀ r ∈ t.scanResult, r.2.1 ∈ t.scanRunIds) ∧
  (∀ r ∈ t.sessionTransition, r.1 ∈ t.scanRunIds)

/-- the same as an executable check (what `PRAGMA foreign_key_check` reports nothing for) -/
def Tables.fkCheck (t : Tables) : Bool :=
  t.scanRun.all (fun r => t.runMeta.contains r.2.2 && (match r.2.1 with | some a => t.addressIds.contains a | none => true)) &&
  t.discoveryRun.all (fun r => t.runMeta.contains r.2) &&
  t.discoveryResult.all (fun r => t.discoveryRunIds.contains r.2.1 && t.addressIds.contains r.2.2) &&
  t.scanResult.all (fun r => t.scanRunIds.contains r.2.1) &&
  t.sessionTransition.all (fun r => t.scanRunIds.contains r.1)

/-- primary keys / the unique url -/
def Tables.keysOk (t : Tables) : Prop :=
  t.runMeta.Nodup ∧ t.addressIds.Nodup ∧ (t.address.map (·.2)).Nodup ∧ t.scanRunIds.Nodup ∧ t.discoveryRunIds.Nodup ∧
  t.discoveryResultIds.Nodup ∧ t.scanResultIds.Nodup

/-! ### statements -/

inductive Stmt
  | insRunMeta
  | insAddress (url : Nat)                        -- INSERT OR IGNORE INTO address(url)
  | insScanRun (url : Nat) (metaId : Nat)           -- address = (SELECT id FROM address WHERE url = ?)
  | insDiscoveryRun (metaId : Nat)
  | insDiscoveryResult (url : Nat) (run : Nat)
  | insScanResult (run : Option Nat) (payload : Nat)
  | insSessionTransition (run : Option Nat) (dest : Nat)
  | update                                        -- an UPDATE of non-key columns
deriving DecidableEq, Repr

/-- result of a statement: the new tables and `lastrowid`; `none` = the statement is refused (IntegrityError: NOT NULL /
    FOREIGN KEY with `PRAGMA foreign_keys = 1`) and changes nothing -/
def Tables.run (t : Tables) : Stmt → Option (Tables × Nat)
  | .insRunMeta =>
    let id := nextId t.runMeta
    some ({ t with runMeta := t.runMeta ++ [id] }, id)
  | .insAddress url =>
    match t.addrId url with
    | some _ => some (t, 0)
    | none =>
      let id := nextId t.addressIds
      some ({ t with address := t.address ++ [(id, url)] }, id)
  | .insScanRun url m =>
    if t.runMeta.contains m then
      let id := nextId t.scanRunIds
      some ({ t with scanRun := t.scanRun ++ [(id, t.addrId url, m)] }, id)
    else none
  | .insDiscoveryRun m =>
    if t.runMeta.contains m then
      let id := nextId t.discoveryRunIds
      some ({ t with discoveryRun := t.discoveryRun ++ [(id, m)] }, id)
    else none
  | .insDiscoveryResult url run =>
    match t.addrId url with
    | some a =>
      if t.discoveryRunIds.contains run then
        let id := nextId t.discoveryResultIds
        some ({ t with discoveryResult := t.discoveryResult ++ [(id, run, a)] }, id)
      else none
    | none => none
  | .insScanResult (some run) p =>
    if t.scanRunIds.contains run then
      let id := nextId t.scanResultIds
      some ({ t with scanResult := t.scanResult ++ [(id, run, p)] }, id)
    else none
  | .insScanResult none _ => none
  | .insSessionTransition (some run) d =>
    if t.scanRunIds.contains run then some ({ t with sessionTransition := t.sessionTransition ++ [(run, d)] }, 0)
    else none
  | .insSessionTransition none _ => none
  | .update => some (t, 0)

/-! ### the handler object and its API calls -/

structure Handler where
  metaId : Option Nat
  scanRun : Option Nat
  discoveryRun : Option Nat
deriving DecidableEq, Repr

def Handler.fresh : Handler := ⟨none, none, none⟩

/-- one awaited step of an API call (or the non-suspending `put` of `insert_scan_result`) -/
inductive Micro
  | runMetaIns                 -- INSERT run_meta; `self.meta = cursor.lastrowid`
  | addrIns (url : Nat)        -- INSERT OR IGNORE address
  | scanRunIns (url : Nat)     -- INSERT scan_run; `self.scan_run = cursor.lastrowid`
  | discRunIns                 -- INSERT discovery_run; `self.discovery_run = cursor.lastrowid`
  | discResIns (url : Nat)     -- INSERT discovery_result
  | sessTrans (dest : Nat)     -- INSERT session_transition (run = self.scan_run)
  | update                     -- UPDATE ... WHERE id = ?
  | commit
  | enqueue (payload : Nat)    -- `put((query, (self.scan_run, ...)))`: does not suspend
deriving DecidableEq, Repr

inductive Op
  | runMeta
  | scanRun (url : Nat)
  | discoveryRun
  | discoveryResult (url : Nat)
  | sessionTransition (dest : Nat)
  | scanResult (payload : Nat)
  | completeRunMeta
  | propertiesPre
  | completeScanRun
deriving DecidableEq, Repr

/-- the awaited steps of an API call; `none` = the assertion at its top fails (`AssertionError`, nothing is done) -/
def Op.micros (h : Handler) : Op → Option (List Micro)
  | .runMeta => some [.runMetaIns, .commit]
  | .scanRun url => if h.metaId.isSome then some [.addrIns url, .scanRunIns url, .commit] else none
  | .discoveryRun => if h.metaId.isSome then some [.discRunIns, .commit] else none
  | .discoveryResult url => if h.discoveryRun.isSome then some [.addrIns url, .discResIns url, .commit] else none
  | .sessionTransition d => some [.sessTrans d]
  | .scanResult p => if h.scanRun.isSome then some [.enqueue p] else none
  | .completeRunMeta => if h.metaId.isSome then some [.update, .commit] else none
  | .propertiesPre => if h.scanRun.isSome then some [.update, .commit] else none
  | .completeScanRun => if h.scanRun.isSome then some [.update, .commit] else none

/-- the statement a step hands to the connection thread -/
def Micro.stmt (h : Handler) : Micro → Option Stmt
  | .runMetaIns => some .insRunMeta
  | .addrIns url => some (.insAddress url)
  | .scanRunIns url => h.metaId.map fun m => .insScanRun url m
  | .discRunIns => h.metaId.map fun m => .insDiscoveryRun m
  | .discResIns url => h.discoveryRun.map fun r => .insDiscoveryResult url r
  | .sessTrans d => some (.insSessionTransition h.scanRun d)
  | .update => some .update
  | .commit => none
  | .enqueue _ => none

/-- the Python-side assignment after the awaited statement has returned -/
def Micro.assign (h : Handler) (lastrowid : Nat) : Micro → Handler
  | .runMetaIns => { h with metaId := some lastrowid }
  | .scanRunIns _ => { h with scanRun := some lastrowid }
  | .discRunIns => { h with discoveryRun := some lastrowid }
  | _ => h

/-! ### the system -/

structure TSys where
  txn : Tables                       -- what the connection sees (its open transaction included)
  committed : Tables                 -- what is durable, and what any other reader of the file sees
  h : Handler
  cur : List Micro                   -- rest of the API call in progress
  todo : List Op
  performed : List Op                -- API calls begun so far
  stopped : Bool
  queue : List (Nat × Nat)           -- (run, payload) of the queued scan_result rows
  inflight : Option (Nat × Nat)
  executed : Bool
  unfinished : Nat
  retries : Nat                      -- warnings `Could not log message ... Retrying ...`
  refused : Nat                      -- API calls refused by their assertion / by a constraint (the caller sees an exception)
  writerDead : Bool                  -- the writer task died of an exception other than OperationalError ("Database worker died")
deriving Repr

def TSys.init (db : Tables) (prog : List Op) : TSys :=
  { txn := db, committed := db, h := .fresh, cur := [], todo := prog, performed := [], stopped := false, queue := [],
    inflight := none, executed := false, unfinished := 0, retries := 0, refused := 0, writerDead := false }

inductive TChoice
  | run          -- the run task performs its next awaited step (or begins its next API call)
  | cancel       -- a cancellation is delivered to the run task at the await it is suspended in
  | get | execOk | execFail | commitOk | commitFail      -- the writer task
deriving DecidableEq, Repr

/-- the database side of a step (this part happens in the connection thread, cancellation or not) -/
def TSys.dbEffect (s : TSys) (m : Micro) : TSys × Option Nat :=
  match m with
  | .commit => ({ s with committed := s.txn }, some 0)
  | .enqueue _ => (s, some 0)
  | m =>
    match m.stmt s.h with
    | some st =>
      match s.txn.run st with
      | some (t, id) => ({ s with txn := t }, some id)
      | none => (s, none)
    | none => (s, none)

def TSys.micro (s : TSys) (m : Micro) : TSys :=
  match m with
  | .enqueue p =>
    match s.h.scanRun with
    | some run => { s with queue := s.queue ++ [(run, p)], unfinished := s.unfinished + 1 }
    | none => { s with refused := s.refused + 1 }      -- unreachable: `Op.micros` has checked the assertion
  | m =>
    match s.dbEffect m with
    | (s', some id) => { s' with h := m.assign s'.h id }
    | (s', none) => { s' with cur := [], refused := s'.refused + 1 }     -- the statement raised: the API call ends there

def tstep (s : TSys) : TChoice → TSys
  | .run =>
    if s.stopped then s else
    match s.cur with
    | m :: ms => TSys.micro { s with cur := ms } m
    | [] =>
      match s.todo with
      | [] => s
      | op :: rest =>
        match op.micros s.h with
        | some ms => { s with cur := ms, todo := rest, performed := s.performed ++ [op] }
        | none => { s with todo := rest, performed := s.performed ++ [op], refused := s.refused + 1 }
  | .cancel =>
    if s.stopped then s else
    match s.cur with
    | .enqueue p :: _ => { TSys.micro s (.enqueue p) with cur := [], todo := [], stopped := true }
    | m :: _ => { (s.dbEffect m).1 with cur := [], todo := [], stopped := true }
    | [] => { s with todo := [], stopped := true }
  | .get =>
    if s.writerDead then s else
    match s.inflight, s.queue with
    | none, r :: q => { s with inflight := some r, queue := q, executed := false }
    | _, _ => s
  | .execOk =>
    if s.writerDead then s else
    match s.inflight, s.executed with
    | some (run, p), false =>
      match s.txn.run (.insScanResult (some run) p) with
      | some (t, _) => { s with txn := t, executed := true }
      | none => { s with writerDead := true, inflight := none, unfinished := s.unfinished - 1 }   -- IntegrityError: not retried
    | _, _ => s
  | .execFail =>
    match s.inflight, s.executed with
    | some _, false => { s with retries := s.retries + 1 }
    | _, _ => s
  | .commitOk =>
    if s.writerDead then s else
    match s.inflight, s.executed with
    | some _, true => { s with committed := s.txn, inflight := none, executed := false, unfinished := s.unfinished - 1 }
    | _, _ => s
  | .commitFail =>
    match s.inflight, s.executed with
    | some _, true => { s with retries := s.retries + 1 }
    | _, _ => s

def texec (s : TSys) (sched : List TChoice) : TSys := sched.foldl tstep s

/-- a choice of the run task (as opposed to the writer task) -/
def TChoice.isRunTask : TChoice → Bool
  | .run | .cancel => true
  | _ => false

/-- rows appended by the writer, ids assigned one after the other -/
def appendResults (tbl : List (Nat × Nat × Nat)) : List (Nat × Nat) → List (Nat × Nat × Nat)
  | [] => tbl
  | (run, p) :: rs => appendResults (tbl ++ [(nextId (tbl.map (·.1)), run, p)]) rs

/-- what is still to be written: the in-flight row unless already executed, then the queue -/
def TSys.pending (s : TSys) : List (Nat × Nat) :=
  (match s.inflight, s.executed with | some r, false => [r] | _, _ => []) ++ s.queue

/-- `disconnect()`: `join()` (the writer finishes everything), final `commit()`, `close()` -/
def afterDisconnectT (s : TSys) : Tables :=
  { s.txn with scanResult := appendResults s.txn.scanResult s.pending }

/-- `disconnect()` aborted while it waits in `join()` (known finding `c11:rows-lost:at=cancel-join`): the connection is
    not committed; only what had been committed is in the file -/
def afterInterruptedDisconnectT (s : TSys) : Tables := s.committed

end Gallia.DbTables
