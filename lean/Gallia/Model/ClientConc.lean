/-
  C05 — concurrent users of one UDS client.

  The client serialises exchanges with one `asyncio.Lock` (`UDSClient._request`: `async with self.mutex:
  return await self.request_unsafe(...)`; `UDSClient.reconnect` likewise).  The model is an *acceptor* for event
  traces observed on the real objects (an instrumented lock and an instrumented transport):

    want t       task `t` enters `lock.acquire()`
    got t        `acquire()` returns in task `t`
    op t k       task `t` calls the transport (`k`: write / read / reconnect)
    rel t        task `t` leaves the `async with` block (normally, by exception or by cancellation)
    unwait t     task `t` is cancelled while it waits for the lock
    ended t      task `t` has finished (returned, raised or was cancelled)

  `step` says which events the locking discipline allows; the theorems are about every accepted trace.
  The lock is FIFO (`asyncio.Lock` wakes the longest waiter and a newcomer never overtakes a waiting task).
-/
namespace Gallia.ClientConc

abbrev Tid := Nat

inductive OpKind | write | read | reconnect
deriving DecidableEq, Repr

inductive Event
  | want (t : Tid)
  | got (t : Tid)
  | op (t : Tid) (k : OpKind)
  | rel (t : Tid)
  | unwait (t : Tid)
  | ended (t : Tid)
deriving DecidableEq, Repr

structure Sys where
  holder : Option Tid := none
  waiters : List Tid := []      -- FIFO, head = longest waiting
deriving DecidableEq, Repr

def Sys.init : Sys := {}

/-- one event; `none` = the locking discipline forbids it in this state -/
def step (s : Sys) : Event → Option Sys
  | .want t =>
    if s.holder = some t ∨ t ∈ s.waiters then none          -- not re-entrant, one pending acquire per task
    else some { s with waiters := s.waiters ++ [t] }
  | .got t =>
    match s.holder, s.waiters with
    | none, w :: ws => if w = t then some { holder := some t, waiters := ws } else none
    | _, _ => none
  | .op t _ => if s.holder = some t then some s else none
  | .rel t => if s.holder = some t then some { s with holder := none } else none
  | .unwait t => if t ∈ s.waiters then some { s with waiters := s.waiters.filter (· ≠ t) } else none
  | .ended t => if s.holder = some t ∨ t ∈ s.waiters then none else some s

def accept (s : Sys) : List Event → Option Sys
  | [] => some s
  | e :: es => match step s e with
    | none => none
    | some s' => accept s' es

/-- index of the first event the model rejects (for the harness) -/
def firstRejected (s : Sys) : List Event → Nat → Option Nat
  | [], _ => none
  | e :: es, i => match step s e with
    | none => some i
    | some s' => firstRejected s' es (i + 1)

/-- the holder after a trace (when it is accepted) -/
def holderAfter (evs : List Event) : Option Tid := (accept Sys.init evs).bind (·.holder)

end Gallia.ClientConc
