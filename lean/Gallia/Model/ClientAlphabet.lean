/-
  C04 — alphabet shared by the model of the UDS client request loop (`Model/Client.lean`) and its
  specification (`Spec/ClientSpec.lean`): what one transport read can produce, and how one request can end.
  Core Lean only.
-/
namespace Gallia.Client

/-- what the k-th `transport.read()` of a request produces -/
inductive Ev
  | timeout     -- TimeoutError
  | connErr     -- ConnectionError (reset, broken pipe, ...)
  | empty       -- b"" (end of stream), mapped to BrokenPipeError by the client
  | busy        -- 7F sid 21  busyRepeatRequest
  | pending     -- 7F sid 78  requestCorrectlyReceivedResponsePending
  | mismatch    -- a reply that does not belong to the request (RequestResponseMismatch)
  | malformed   -- a reply to the request that cannot be decoded (MalformedResponse)
  | negFinal    -- 7F sid nrc, nrc not in {21, 78}
  | posFinal    -- the matching positive response
deriving DecidableEq, Repr, Inhabited

/-- how one request ends -/
inductive Out
  | reply (k : Nat)         -- the response produced by read #k is returned to the caller
  | missing (cause : Bool)  -- MissingResponse; `cause` = its `__cause__` is the ConnectionError
  | illegal (k : Nat)       -- IllegalResponse (mismatch / malformed) raised for read #k
  | stuck                   -- RuntimeError "stuck in ResponsePending loop"
  | connEscaped (k : Nat)   -- a bare ConnectionError raised by read #k leaves request_unsafe
                            -- (never produced by the model of the repaired loop; observed behaviours may contain it)
deriving DecidableEq, Repr, Inhabited

namespace Ev
def final : Ev → Bool
  | negFinal | posFinal => true
  | _ => false
def illegal : Ev → Bool
  | mismatch | malformed => true
  | _ => false
def lost : Ev → Bool
  | connErr | empty => true
  | _ => false
end Ev

end Gallia.Client
