import Gallia.Model.Server
import Gallia.Model.UdsReq
import Gallia.Model.UdsResp
import Gallia.Model.UdsMatch
/-
  C14 - the *typed* virtual ECU: `RandomUDSServer.respond_after_default` and its handlers (src/gallia/services/uds/
  server.py: `ecu_reset`, `security_access`, `routine_control`, `read_data_by_identifier`, `write_data_by_identifier`,
  `input_output_control_by_identifier`, `clear_diagnostic_information`, `read_dtc_information`) over C01's parsed
  requests (`UdsReq.Req`, the model of `UDSRequest.parse_dynamic`) and C02's typed responses (`UdsResp.Resp`), plugged
  into C13's rule chain (`Server.respond` with every default behaviour on).

  The handlers are random: every random decision of one handler call is a field of the per-request oracle `Orc`
  (what `RNG.random_bool`, `RNG.randint`, `RNG.expovariate` returned, in call order); the theorems quantify over all
  oracles, the correspondence harness records them from the running code.

  Dispatch follows the `isinstance` ladder of `respond_after_default` on the class `parse_dynamic` returns:
    * a multi-identifier ReadDataByIdentifier request answers for `request.data_identifier` = the *first* identifier;
    * RoutineControl requests are parsed into Start / Stop / RequestRoutineResults, whose `RESPONSE_TYPE` carries the
      same sub-function; InputOutputControlByIdentifier requests are parsed into the generic class, whose
      `RESPONSE_TYPE` is the generic response;
    * ECUReset answers enableRapidPowerShutDown (4) with an extra powerDownTime byte;
    * ReadDTCInformation: only reportDTCByStatusMask (2) is implemented, every other parsed request of the service
      falls through to subFunctionNotSupported.

  Core Lean only (linked into the `c14` driver).
-/
namespace Gallia.VEcu
open Gallia Gallia.Server

/-! ### the random decisions of one handler call -/

/-- what the random number generators of one `respond_after_default` call returned -/
structure Orc where
  /-- results of `rng.random_bool(p)` in call order (a missing one counts as `False`) -/
  bools : List Bool := []
  /-- the `rng.randint(0, 255)` outside `random_payload`: powerDownTime of `ecu_reset`,
      DTCStatusAvailabilityMask of `read_dtc_information` -/
  byte : UInt8 := 0
  /-- `int(self.expovariate(1 / 8) + 0.5)` of `random_payload` -/
  payLen : Nat := 0
  /-- the `randint(0, 255)` draws of `random_payload`, in order (a missing one counts as 0) -/
  payload : Bytes := []
  /-- `int(rng.expovariate(1 / 50) + 0.5)` of `read_dtc_information` -/
  dtcCount : Nat := 0
  /-- per loop pass of `read_dtc_information`: (`randint(0, 256**3 - 1)`, `randint(0, 255)`) (missing: (0, 0)) -/
  dtcs : List (Fin 16777216 × UInt8) := []
deriving Repr

def Orc.bool (o : Orc) (i : Nat) : Bool := o.bools.getD i false

/-- `RNG.random_payload(min_len)`: `byte_length = max(min_len, int(expovariate(1/8) + 0.5))`, then that many draws -/
def Orc.randomPayload (o : Orc) (minLen : Nat) : Bytes :=
  (List.range (max minLen o.payLen)).map (fun i => o.payload.getD i 0)

/-- `d[k] = v` on an insertion-ordered dict: an existing key keeps its position and gets the new value -/
def dictPut (d : List (Nat × UInt8)) (k : Nat) (v : UInt8) : List (Nat × UInt8) :=
  match d with
  | [] => [(k, v)]
  | (k', v') :: rest => if k' = k then (k', v) :: rest else (k', v') :: dictPut rest k v

/-- the `for _ in range(int(rng.expovariate(1 / 50) + 0.5))` loop of `read_dtc_information`:
    `dtc_and_status_record[randint(0, 256**3 - 1)] = randint(0, 255) & dtc_status_availability_mask` -/
def Orc.dtcRecords (o : Orc) : List (Nat × UInt8) :=
  ((List.range o.dtcCount).map (fun i => o.dtcs.getD i (0, 0))).foldl
    (fun d p => dictPut d p.1.val (p.2 &&& o.byte)) []

/-! ### `RandomUDSServer.respond_after_default` -/

-- UDSErrorCodes used by the handlers (compared with the AST / the live enum: `Gen.C14Handlers`)
def nrcSFNS : UInt8 := 0x12
def nrcLength : UInt8 := 0x13
def nrcSequence : UInt8 := 0x24
def nrcOutOfRange : UInt8 := 0x31
def nrcInvalidKey : UInt8 := 0x35

/-- `EcuResetSubFuncs.enableRapidPowerShutDown` -/
def rapidPowerShutDown : Nat := 4
/-- `ReadDTCInformationSubFuncs.reportDTCByStatusMask` -/
def dtcByStatusMask : Nat := 2

/-- `request.service_id`: first byte of the request's PDU -/
def sidOf (r : UdsReq.Req) : UInt8 := (UdsReq.encode r).headD 0

def neg (r : UdsReq.Req) (nrc : UInt8) : Option UdsResp.Resp := some (.neg (sidOf r) nrc)

/-- `security_access`, the sendKey half: the key must follow the seed request of the level below it and equal the seed
    (identity key) -/
def sendKey (st : SrvState) (r : UdsReq.Req) (lvl : Nat) (key : Bytes) : Option UdsResp.Resp :=
  match st.lastSA with
  | none => neg r nrcSequence
  | some (t0, seed) =>
    if lvl ≠ t0 + 1 then neg r nrcSequence
    else if key = seed then some (.secAccess (UdsReq.u8 lvl) [])
    else neg r nrcInvalidKey

/-- the handlers, by the class of the parsed request (`isinstance` ladder of `respond_after_default`) -/
def typedHandler (o : Orc) (st : SrvState) (r : UdsReq.Req) : Option UdsResp.Resp :=
  match r with
  | .ecuReset ty _ =>                                             -- ecu_reset
    some (.ecuReset (UdsReq.u8 ty) (if ty = rapidPowerShutDown then some o.byte else none))
  | .requestSeed lvl _ _ =>                                       -- security_access, RequestSeedRequest
    some (.secAccess (UdsReq.u8 lvl) (o.randomPayload 0))
  | .sendKey lvl key _ => sendKey st r lvl key                    -- security_access, SendKeyRequest
  | .routine sf rid _ _ =>                                        -- routine_control
    if !o.bool 0 then neg r nrcOutOfRange
    else if !o.bool 1 then neg r nrcSFNS
    else if !o.bool 2 then neg r nrcLength
    else some (.routine (UdsReq.u8 sf) rid (o.randomPayload 0))
  | .rdbi dids =>                                                 -- read_data_by_identifier
    if !o.bool 0 then neg r nrcOutOfRange
    else some (.rdbi (dids.headD 0) (o.randomPayload 1))
  | .wdbi did _ =>                                                -- write_data_by_identifier
    if !o.bool 0 then neg r nrcOutOfRange
    else if !o.bool 1 then neg r nrcLength
    else some (.wdbi did)
  | .iocbi did _ _ =>                                             -- input_output_control_by_identifier
    if !o.bool 0 then neg r nrcOutOfRange
    else if !o.bool 1 then neg r nrcLength
    else some (.iocbi did (o.randomPayload 1))
  | .clearDTC _ =>                                                -- clear_diagnostic_information
    if !o.bool 0 then neg r nrcOutOfRange else some .clearDTC
  | .dtcByMask sf _ _ =>                                          -- read_dtc_information
    if sf = dtcByStatusMask then some (.dtcList (UdsReq.u8 dtcByStatusMask) o.byte o.dtcRecords)
    else neg r nrcSFNS
  | .dtcPlain _ _ => neg r nrcSFNS
  | .dtcExtByNumber _ _ _ => neg r nrcSFNS
  | .raw b => if b.head? = some 0x19 then neg r nrcSFNS else none -- `request.service_id == ReadDTCInformation`
  | _ => none

/-! ### into C13's chain -/

/-- the classes `update_state` and `default_response_if_suppress` distinguish -/
def coarse (x : UdsResp.Resp) : Server.Resp :=
  match x with
  | .neg sid nrc => .neg sid.toNat nrc.toNat
  | .dsc ty rec => .dsc ty.toNat rec
  | .secAccess ty seed => .sa ty.toNat seed
  | .ecuReset .. => .reset (UdsResp.encodeResp x)
  | .testerPresent => .tp
  | _ => .other (UdsResp.encodeResp x)

/-- `respond_after_default` as C13's handler: the request is the one C01's parser model returns for the bytes -/
def vecuHandler (o : Orc) : Server.Handler := fun st r => (typedHandler o st (UdsReq.decode r.pdu)).map coarse

/-- `UDSRequest.parse_dynamic(request_pdu)` as far as C13's rules look at it: the bytes and the raw bit, which is
    no longer an input but computed by C01's parser model -/
def mkReq (b : Bytes) : Server.Req := ⟨b, (UdsReq.decode b).isRaw⟩

/-- `UDSServer.respond` of the virtual ECU (every default behaviour on) on request bytes `b` -/
def vecuRespond (m : Model) (o : Orc) (st : SrvState) (b : Bytes) : Outcome :=
  respond allOn m (vecuHandler o) st (mkReq b)

/-- `UDSServerTransport.handle_request` at time `now` (ticks of 0.25 s) -/
def vecuHandleAt (m : Model) (ts : TState) (now : Nat) (b : Bytes) (o : Orc) : TState × Outcome :=
  handleAt allOn m (vecuHandler o) ts now (mkReq b)

/-- a request history: (time, request bytes, the oracle of that request's handler call) -/
def vecuRun (m : Model) (ts : TState) : List (Nat × Bytes × Orc) → TState
  | [] => ts
  | (now, b, o) :: rest => vecuRun m (vecuHandleAt m ts now b o).1 rest

/-- the client's verdict on a reply: `helpers.parse_pdu(reply, UDSRequest.parse_dynamic(request))` -/
def clientVerdict (reply : Bytes) (request : Bytes) : UdsMatch.Outcome :=
  UdsMatch.parsePdu reply (UdsReq.decode request)

/-! ### executable hypotheses of the theorems on association-list models (what the harness extracts from
    `RandomUDSServer.services`); soundness in `Proofs/Lemmas/VEcuModel.lean` -/

abbrev Assoc := List (Sess × List (Sid × Option (List SubFn)))

/-- no key twice (anything read from a Python dict of dicts) -/
def uniqueKeysB (a : Assoc) : Bool :=
  (a.map (·.1)).Nodup && a.all (fun e => (e.2.map (·.1)).Nodup)

/-- services with sub-function carry a (possibly empty) list: the `assert` of the sub-function rule -/
def listedB (a : Assoc) : Bool :=
  a.all (fun e => e.2.all (fun p => !subFnServices.contains p.1 || p.2.isSome))

/-- `Server.Ready`: the active session is offered (+ `listedB`) -/
def readyB (a : Assoc) (st : SrvState) : Bool := (a.map (·.1)).contains st.session && listedB a

/-- `C13.Closed`: default session offered, DiagnosticSessionControl lists offered sessions only -/
def closedB (a : Assoc) : Bool :=
  (a.map (·.1)).contains 1 &&
  a.all (fun e => e.2.all (fun p => p.1 != sidDSC || (p.2.getD []).all (fun t => (a.map (·.1)).contains t)))

/-- session identifiers fit the sub-function byte without the suppress bit (and hence `to_bytes(session, 1)`) -/
def sessionsSmallB (a : Assoc) : Bool := a.all (fun e => decide (e.1 < 128))

def modelOKB (a : Assoc) : Bool := listedB a && closedB a && sessionsSmallB a

end Gallia.VEcu
