import Gallia.Model.Lines
/-
  C19 — whole-execution semantics of the line transports.

  * the CLIENT (`LinesTransportMixin` in `TCPLinesTransport` / `UnixLinesTransport`) as a machine over arbitrary
    operation sequences: `feed chunk` (bytes arriving in the StreamReader), `eof` (peer closed), `read` (one
    `read(timeout)`; `.pending` = the read blocks and times out), `write msg`, `request msg` (= `request_unsafe`:
    write, then read; `request()` runs it under the transport mutex), `close`;
  * the SERVER loop `TCPUDSServerTransport.handle_client` (inherited unchanged by `UnixUDSServerTransport`) around a
    handler that may answer, stay silent (`handle_request` returned `None`) or raise, with the reason the loop is not
    serving any more;
  * both composed (`exchange`).

  The reader is the unlimited one: the `limit` of the real StreamReader (asyncio default, 64 KiB, on both sides - see
  `Gen/C19Lines.lean`) is an obligation in `Proofs/C19.lean` (every message of the property's range fits).
-/
namespace Gallia.Lines
open Gallia

/-! ### client -/

inductive Op
  | feed (c : Bytes)
  | eof
  | read
  | write (m : Bytes)
  | request (m : Bytes)
  | close
deriving DecidableEq, Repr

structure Client where
  buf : Bytes := []          -- StreamReader buffer
  eof : Bool := false        -- feed_eof() seen
  out : Bytes := []          -- everything handed to writer.write(), in order
  closed : Bool := false     -- is_closed
  closes : Nat := 0          -- calls of writer.close()
deriving DecidableEq, Repr

inductive Obs
  | ok
  | res (r : ReadRes)        -- result of a read / request
  | wrote (n : Nat)          -- write() returns len(data)
  | closed (first : Bool)    -- close(): whether writer.close() was called (only the first time)
deriving DecidableEq, Repr

/-- one operation.  `feed` after `eof` cannot happen on a real stream (`feed_data` asserts); it is ignored. -/
def cstep (c : Client) : Op → Client × Obs
  | .feed ch => (if c.eof then c else { c with buf := c.buf ++ ch }, .ok)
  | .eof => ({ c with eof := true }, .ok)
  | .read => ({ c with buf := (readLine c.buf c.eof).2 }, .res (readLine c.buf c.eof).1)
  | .write m => ({ c with out := c.out ++ enc m }, .wrote m.length)
  | .request m =>
    ({ c with out := c.out ++ enc m, buf := (readLine c.buf c.eof).2 }, .res (readLine c.buf c.eof).1)
  | .close => if c.closed then (c, .closed false) else ({ c with closed := true, closes := c.closes + 1 }, .closed true)

/-- a whole execution: final state and the observation of every operation -/
def crun (c : Client) : List Op → Client × List Obs
  | [] => (c, [])
  | op :: ops => ((crun (cstep c op).1 ops).1, (cstep c op).2 :: (crun (cstep c op).1 ops).2)

/-! ### server loop -/

/-- what `UDSServerTransport.handle_request` hands back to the line loop -/
inductive HRes
  | reply (r : Bytes)
  | silent               -- `(None, dt)`: the server does not answer this request
  | raised               -- an exception (e.g. `IndexError` for the empty request)
deriving DecidableEq, Repr

/-- why the loop is (not) serving -/
inductive SrvEnd
  | waiting              -- blocked in `readline()`: still serving
  | eofClean             -- end of stream, nothing buffered
  | eofTail              -- end of stream inside a line: the unterminated tail is dropped, not handled
  | undecodable          -- a complete line that is not hex text: `break`
  | handlerRaised        -- the handler raised: `break`
deriving DecidableEq, Repr

def replyBytes : HRes → Bytes
  | .reply r => enc r
  | _ => []

theorem cutLine_lt {buf l rest} (h : cutLine buf = some (l, rest)) : rest.length < buf.length := by
  induction buf generalizing l rest with
  | nil => simp [cutLine] at h
  | cons b t ih =>
    simp only [cutLine] at h
    split at h
    · injection h with h; injection h with h1 h2; subst h2; simp
    · split at h
      · contradiction
      · rename_i l' r' hc
        injection h with h; injection h with h1 h2; subst h2
        have := ih hc; simp; omega

/-- `handle_client` from a state with `buf` buffered until it blocks or ends:
    (handler state, bytes written, why it stopped, bytes left unread in the StreamReader).
    After `break` the connection is left open: the unread bytes stay where they are, nobody serves them. -/
def srvLoop {σ} (h : σ → Bytes → σ × HRes) (st : σ) (buf : Bytes) (eof : Bool) : σ × Bytes × SrvEnd × Bytes :=
  match hc : cutLine buf with
  | none =>
    if eof then (st, [], if buf = [] then .eofClean else .eofTail, []) else (st, [], .waiting, buf)
  | some (l, rest) =>
    match decodeLine l with
    | .msg m =>
      match (h st m).2 with
      | .raised => ((h st m).1, [], .handlerRaised, rest)
      | r =>
        have : rest.length < buf.length := cutLine_lt hc
        let t := srvLoop h (h st m).1 rest eof
        (t.1, replyBytes r ++ t.2.1, t.2.2.1, t.2.2.2)
    | _ => (st, [], .undecodable, rest)
termination_by buf.length

/-- the server side of one connection, fed chunk by chunk -/
structure Srv (σ : Type) where
  st : σ
  buf : Bytes := []
  out : Bytes := []
  fin : SrvEnd := .waiting

def srvFeed {σ} (h : σ → Bytes → σ × HRes) (s : Srv σ) (chunk : Bytes) : Srv σ :=
  match s.fin with
  | .waiting =>
    let t := srvLoop h s.st (s.buf ++ chunk) false
    { st := t.1, buf := t.2.2.2, out := s.out ++ t.2.1, fin := t.2.2.1 }
  | _ => { s with buf := s.buf ++ chunk }    -- no longer served: the bytes pile up unread

def srvEof {σ} (h : σ → Bytes → σ × HRes) (s : Srv σ) : Srv σ :=
  match s.fin with
  | .waiting =>
    let t := srvLoop h s.st s.buf true
    { st := t.1, buf := t.2.2.2, out := s.out ++ t.2.1, fin := t.2.2.1 }
  | _ => s

/-! ### both directions -/

/-- a client writes `ms`; the request bytes reach the server loop cut into `cs1`; the reply bytes reach the client cut
    into `cs2`-sized pieces by `seg`; the client then reads `n` times.  Returns the client's read results. -/
def exchange {σ} (h : σ → Bytes → σ × HRes) (st : σ) (ms : List Bytes)
    (seg1 seg2 : Bytes → List Bytes) (n : Nat) : List Obs :=
  let c1 := (crun {} (ms.map .write)).1
  let s := (seg1 c1.out).foldl (srvFeed h) { st := st }
  (crun c1 ((seg2 s.out).map .feed ++ List.replicate n .read)).2.drop (seg2 s.out).length

/-- cut a byte string into pieces of the given sizes (a size 0 counts as 1; the rest goes into the last piece) -/
def cutBy : List Nat → Bytes → List Bytes
  | [], b => [b]
  | k :: ks, b => if b.length ≤ k.max 1 then [b] else b.take (k.max 1) :: cutBy ks (b.drop (k.max 1))

/-! ### the write side under flow control

The peer does not read, the kernel buffers are full and the stream writer is above its high-water mark: `drain()` does
not return, so `write(timeout)` raises `TimeoutError` after having handed the line to the writer (it stays queued and
goes out later), and `request()` fails in its WRITE half - before its read half has started - or is cancelled by its
caller there.  The stream from the peer is healthy all the time. -/

inductive FOp
  | base (o : Op)
  | stall                -- from now on `drain()` blocks
  | resume               -- the peer reads again
deriving DecidableEq, Repr

structure FClient where
  c : Client := {}
  stalled : Bool := false
deriving DecidableEq, Repr

inductive FObs
  | base (o : Obs)
  | ok
  | wtimeout             -- the write (half) did not finish: `TimeoutError` / cancellation of the caller
deriving DecidableEq, Repr

/-- one operation of the flow-controlled client: a `write` / `request` on a stalled writer queues its line and fails;
    the request's read half never runs, the reader is not touched.  Everything else is `cstep`. -/
def fstep (f : FClient) : FOp → FClient × FObs
  | .stall => ({ f with stalled := true }, .ok)
  | .resume => ({ f with stalled := false }, .ok)
  | .base o =>
    if f.stalled then
      match o with
      | .write m => ({ f with c := { f.c with out := f.c.out ++ enc m } }, .wtimeout)
      | .request m => ({ f with c := { f.c with out := f.c.out ++ enc m } }, .wtimeout)
      | o => ({ f with c := (cstep f.c o).1 }, .base (cstep f.c o).2)
    else ({ f with c := (cstep f.c o).1 }, .base (cstep f.c o).2)

def frun (f : FClient) : List FOp → FClient × List FObs
  | [] => (f, [])
  | op :: ops => ((frun (fstep f op).1 ops).1, (fstep f op).2 :: (frun (fstep f op).1 ops).2)

/-- the same execution without flow control: a request whose write half failed did what a plain `write` does -/
def eraseOp (stalled : Bool) : Op → Op
  | .request m => if stalled then .write m else .request m
  | o => o

def eraseFlow : Bool → List FOp → List Op
  | _, [] => []
  | _, .stall :: r => eraseFlow true r
  | _, .resume :: r => eraseFlow false r
  | st, .base o :: r => eraseOp st o :: eraseFlow st r

/-- the results of the reads (and of the read halves of requests) of an execution, in order -/
def readResults : List Obs → List ReadRes
  | [] => []
  | .res r :: t => r :: readResults t
  | _ :: t => readResults t

def freadResults : List FObs → List ReadRes
  | [] => []
  | .base (.res r) :: t => r :: freadResults t
  | _ :: t => freadResults t

end Gallia.Lines
