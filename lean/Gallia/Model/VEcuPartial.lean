import Gallia.Model.VEcu
/-
  C14 - the handlers of `RandomUDSServer` with their Python-level *partial* operations made explicit: every operation of
  the handler code that can raise (the list is regenerated from the AST of server.py into `Gen.C14Partial` and pinned by
  `C14.partial_ops_agree`) has an error outcome here:

    security_access       self.state.last_sa_response.security_access_type   AttributeError when it is None
                          self.state.last_sa_response.security_seed          AttributeError when it is None
                          raise AssertionError                               a `_SecurityAccessRequest` that is neither a
                                                                             RequestSeedRequest nor a SendKeyRequest
    read_dtc_information  assert request.service_id == ReadDTCInformation    AssertionError

  (`handle_client`'s own three - `line.decode`, `unhexlify`, the division after the loop - are outcomes of
  `Model/VEcuConn.lean`.)  `typedHandlerE` evaluates the code in Python's order, `or` short-circuiting included.

  Core Lean only.
-/
namespace Gallia.VEcu
open Gallia Gallia.Server

inductive PyErr
  | assertion          -- `raise AssertionError` / a failing `assert`
  | attributeOfNone    -- an attribute read on `None`
deriving DecidableEq, Repr

/-- `x.attr` where `x` may be `None` -/
def optAttr {α : Type} : Option α → Except PyErr α
  | some x => .ok x
  | none => .error .attributeOfNone

/-- `security_access` on a request for which `isinstance(request, _SecurityAccessRequest)` held -/
def securityAccessE (o : Orc) (st : SrvState) (r : UdsReq.Req) : Except PyErr (Option UdsResp.Resp) :=
  match r with
  | .requestSeed lvl _ _ => .ok (some (.secAccess (UdsReq.u8 lvl) (o.randomPayload 0)))
  | .sendKey lvl key _ => do
    -- `self.state.last_sa_response is None or request.security_access_type != self.state.last_sa_response.security_access_type + 1`
    let refuse ← (if st.lastSA.isNone then pure true else do
      let p ← optAttr st.lastSA
      pure (decide (lvl ≠ p.1 + 1)))
    if refuse then pure (neg r nrcSequence) else do
      let p ← optAttr st.lastSA                 -- `expected_key = self.state.last_sa_response.security_seed`
      if key = p.2 then pure (some (.secAccess (UdsReq.u8 lvl) [])) else pure (neg r nrcInvalidKey)
  | _ => .error .assertion                       -- `raise AssertionError`

/-- `read_dtc_information` -/
def readDtcE (o : Orc) (r : UdsReq.Req) : Except PyErr (Option UdsResp.Resp) :=
  if sidOf r ≠ 0x19 then .error .assertion       -- `assert request.service_id == UDSIsoServices.ReadDTCInformation`
  else match r with
    | .dtcByMask sf _ _ =>
      if sf = dtcByStatusMask then .ok (some (.dtcList (UdsReq.u8 dtcByStatusMask) o.byte o.dtcRecords)) else .ok (neg r nrcSFNS)
    | _ => .ok (neg r nrcSFNS)

/-- is the parsed request an instance of `_SecurityAccessRequest` -/
def isSecurityAccess : UdsReq.Req → Bool
  | .requestSeed .. => true
  | .sendKey .. => true
  | _ => false

/-- `respond_after_default` with exceptions: the `isinstance` ladder, then `request.service_id == ReadDTCInformation` -/
def typedHandlerE (o : Orc) (st : SrvState) (r : UdsReq.Req) : Except PyErr (Option UdsResp.Resp) :=
  if isSecurityAccess r then securityAccessE o st r
  else match r with
    | .ecuReset .. | .routine .. | .rdbi .. | .wdbi .. | .iocbi .. | .clearDTC .. => .ok (typedHandler o st r)
    | _ => if sidOf r = 0x19 then readDtcE o r else .ok none

end Gallia.VEcu
