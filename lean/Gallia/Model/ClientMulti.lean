import Gallia.Model.ClientConc
import Gallia.Model.ClientIO
import Gallia.Model.UdsMatch
/-
  C05 (widened) — several tasks on one UDS client: an operational semantics that composes

    * the lock (`Model/ClientConc.lean`: `holder`, FIFO `waiters`) — here as the *raw* `asyncio.Lock`: `release()` has no
      owner check and frees the lock whoever calls it; that only the holder ever calls it is a theorem about the
      programs (`Proofs/C05.lean: release_only_by_holder`), not a premise of the step function;
    * the C04 client (`Model/ClientIO.lean`): a caller's program is the trace of `requestX` over its own script
      (`acquire`, every `write` / `read` / backoff `sleep` / `reconnect` of `request_unsafe` incl. responsePending polls
      and retries, `release`);
    * the C03 matcher (`Model/UdsMatch.lean: parsePdu`): the transport has ONE inbox; whatever message is at its head is
      handed to whoever reads next, and that reader classifies it against ITS OWN request.

      UDSClient._request          async with self.mutex: return await self.request_unsafe(...)      Round.request
      UDSClient.reconnect         async with self.mutex: await self.reconnect_unsafe(timeout)       Round.reconnect
      ECU._tester_present_worker  while ...: await asyncio.sleep(interval)                           Round.worker (one pass of
                                             await self.ping(UDSRequestConfig(max_retry=0))          the loop), `rounds = none`
                                  every exception but CancelledError is logged, the loop goes on
      ECU.start_cyclic_tester_present   create_task(worker); await asyncio.sleep(0)                  Round.startWorker
      ECU.stop_cyclic_tester_present    task.cancel(); await asyncio.wait([task])                    Round.stopWorker

  A task is a sequence of rounds (`Prog`); a round is a list of await points (`Act`).  A schedule is a list of
  `Choice`s: which task takes its next step, which task is cancelled at the await point it is suspended in (lock
  acquire, write, read, backoff sleep, reconnect, the worker's interval sleep), which message the network delivers.
  A read is scripted (`Round.rd`, the C04 read stream of that caller) and must agree with the inbox: a TimeoutError needs
  an empty inbox, a message is the head of the inbox and its C03 class against the reader's request is the scripted event.
  Core Lean only (linked into the `c05` driver).
-/
namespace Gallia.ClientMulti
open Gallia Gallia.Client Gallia.ClientIO Gallia.ClientConc Gallia.UdsReq Gallia.UdsResp Gallia.UdsMatch

/-- an await point of a task -/
inductive Act
  | acquire              -- `await self.mutex.acquire()` (entering `async with self.mutex`)
  | release              -- `self.mutex.release()` (leaving it)
  | io (o : OpX)         -- transport write / read / reconnect, `asyncio.sleep`
  | spawn (w : Tid)      -- `asyncio.create_task(worker)`
  | stop (w : Tid)       -- `task.cancel()`
  | join (w : Tid)       -- `await asyncio.wait([task])`
deriving DecidableEq, Repr

def Act.ofReq : ReqOp → Act
  | .acquire => .acquire
  | .io o => .io o
  | .release => .release

/-- the operation touches the transport -/
def wireKind : OpX → Option OpKind
  | .wr .. => some .write
  | .rd .. => some .read
  | .rc _ => some .reconnect
  | .sl _ => none

def Act.isWire : Act → Bool
  | .io o => (wireKind o).isSome
  | _ => false

/-- how `request_unsafe` sees a message `b` while request `r` is outstanding: `parse_pdu(b, r)` and the two response
    codes the loop looks at -/
def classify (r : Req) (b : Bytes) : Ev :=
  match parsePdu b r with
  | .mismatch => .mismatch
  | .malformed => .malformed
  | .accepted (.neg _ nrc) => if nrc = 0x21 then .busy else if nrc = 0x78 then .pending else .negFinal
  | .accepted _ => .posFinal

/-- a read that hands a message to the caller (everything but TimeoutError / ConnectionError / end of stream) -/
def consuming : Ev → Bool
  | .timeout | .connErr | .empty => false
  | _ => true

/-- the events with which a request returns a reply -/
def replyEv : Ev → Bool
  | .busy | .negFinal | .posFinal => true
  | _ => false

structure Round where
  acts : List Act
  req : Req            -- the request the reads of this round are parsed against
  rd : Nat → Ev        -- the read script of this round (C04: what the k-th read produces)

structure Prog where
  round : Nat → Round
  rounds : Option Nat  -- `none`: loops until cancelled

def Prog.hasRound (p : Prog) (n : Nat) : Bool :=
  match p.rounds with
  | none => true
  | some m => decide (n < m)

/-! ### the programs of the real callers -/

/-- `UDSClient.request()` / every service method: one `requestX` -/
def Round.request (c : CfgX) (r : Req) (io : Script) : Round := ⟨(requestX c io).trace.map Act.ofReq, r, io.rd⟩

/-- `UDSClient.reconnect()` -/
def Round.reconnect (res : RcEv) : Round := ⟨[.acquire, .io (.rc res), .release], .raw [], fun _ => .timeout⟩

/-- `asyncio.sleep` outside the lock -/
def Round.sleep (d : Nat) : Round := ⟨[.io (.sl d)], .raw [], fun _ => .timeout⟩

/-- the ping of the worker: `UDSRequestConfig(max_retry=0)` -/
def workerCfg (c : CfgX) : CfgX := { c with maxRetry := 0 }

/-- one pass through the worker loop -/
def Round.worker (interval : Nat) (c : CfgX) (io : Script) : Round :=
  ⟨.io (.sl interval) :: (requestX (workerCfg c) io).trace.map Act.ofReq, .testerPresent false, io.rd⟩

def Round.startWorker (w : Tid) : Round := ⟨[.spawn w, .io (.sl 0)], .raw [], fun _ => .timeout⟩
def Round.stopWorker (w : Tid) : Round := ⟨[.stop w, .join w], .raw [], fun _ => .timeout⟩

def Prog.request (c : CfgX) (r : Req) (io : Script) : Prog := ⟨fun _ => Round.request c r io, some 1⟩
def Prog.reconnect (res : RcEv) : Prog := ⟨fun _ => Round.reconnect res, some 1⟩
def Prog.worker (interval : Nat) (c : CfgX) (ios : Nat → Script) : Prog :=
  ⟨fun n => Round.worker interval c (ios n), none⟩
/-- a task that performs the given calls one after the other (a scanner's `main`, `wait_for_ecu`, …) -/
def Prog.seq (rs : List Round) : Prog := ⟨fun n => rs.getD n (Round.sleep 0), some rs.length⟩

/-! ### state -/

inductive Phase
  | unborn     -- task object not created yet
  | idle       -- outside the lock
  | waiting    -- inside `lock.acquire()`
  | holding    -- inside the `async with` body
  | done       -- returned, raised or cancelled
deriving DecidableEq, Repr

structure TState where
  phase : Phase := .unborn
  todo : List Act := []                     -- rest of the current round
  round : Nat := 0
  stopReq : Bool := false                   -- `task.cancel()` called, CancelledError not delivered yet
  aborted : Bool := false                   -- ended by cancellation (or by an exception of `release()`)
  reads : List (Nat × Nat × Bytes) := []    -- (round, k, message) consumed by read #k of that round

structure MSys where
  lock : Sys := {}
  tasks : Tid → TState := fun _ => {}
  inbox : List Bytes := []
  log : List (Tid × Nat × Act) := []        -- the wire and everything around it: (task, round, await point), oldest first
  events : List Event := []                 -- the same run in the vocabulary of `Model/ClientConc.lean`

inductive Choice
  | run (t : Tid)          -- task `t` is resumed and runs to its next await point
  | cancel (t : Tid)       -- CancelledError is delivered to `t` at the await point it is suspended in
  | deliver (b : Bytes)    -- the network puts message `b` into the transport's inbox
deriving DecidableEq, Repr

abbrev Progs := Tid → Prog

def MSys.setTask (s : MSys) (t : Tid) (ts : TState) : MSys :=
  { s with tasks := fun u => if u = t then ts else s.tasks u }

/-- the first round of a task -/
def TState.start (p : Prog) : TState :=
  if p.hasRound 0 then { phase := .idle, todo := (p.round 0).acts } else { phase := .done }

/-- the current round is finished: enter the next one or end -/
def nextRound (p : Prog) (t : Tid) (ts : TState) : TState × List Event :=
  if p.hasRound (ts.round + 1) then ({ ts with round := ts.round + 1, todo := (p.round (ts.round + 1)).acts }, [])
  else ({ ts with phase := .done }, [.ended t])

def settle (p : Prog) (t : Tid) (ts : TState) : TState × List Event :=
  match ts.todo with
  | [] => nextRound p t ts
  | _ => (ts, [])

/-- system with the tasks `born` started and everybody else not yet created -/
def MSys.init (P : Progs) (born : Tid → Bool) : MSys :=
  { tasks := fun t => if born t then TState.start (P t) else {} }

/-- the k-th read of round `n` of task `t` against the shared inbox -/
def readInbox (rnd : Round) (n k : Nat) (ts : TState) (inbox : List Bytes) : Option (TState × List Bytes) :=
  match rnd.rd k with
  | .timeout => if inbox = [] then some (ts, inbox) else none
  | .connErr | .empty => some (ts, inbox)
  | e =>
    match inbox with
    | b :: rest => if classify rnd.req b = e then some ({ ts with reads := ts.reads ++ [(n, k, b)] }, rest) else none
    | [] => none

/-- task `t` performs the await point `a`; `ts` is its state with `a` already taken off `todo` -/
def exec (P : Progs) (s : MSys) (t : Tid) (ts : TState) (a : Act) : Option (MSys × List Event) :=
  let entry := (t, ts.round, a)
  match a with
  | .acquire =>
    some ({ s with lock := { s.lock with waiters := s.lock.waiters ++ [t] }, log := s.log ++ [entry] }.setTask t
            { ts with phase := .waiting }, [.want t])
  | .release =>
    match s.lock.holder with
    | none =>     -- RuntimeError("Lock is not acquired."): the task dies
      some ({ s with log := s.log ++ [entry] }.setTask t { ts with phase := .done, todo := [], aborted := true }, [.ended t])
    | some _ =>   -- no owner check
      let (ts', ev) := settle (P t) t { ts with phase := .idle }
      some ({ s with lock := { s.lock with holder := none }, log := s.log ++ [entry] }.setTask t ts', .rel t :: ev)
  | .io o =>
    let opEv := match wireKind o with | some k => [Event.op t k] | none => []
    match o with
    | .rd k _ _ =>
      match readInbox ((P t).round ts.round) ts.round k ts s.inbox with
      | none => none
      | some (ts1, inbox') =>
        let (ts', ev) := settle (P t) t ts1
        some ({ s with inbox := inbox', log := s.log ++ [entry] }.setTask t ts', opEv ++ ev)
    | _ =>
      let (ts', ev) := settle (P t) t ts
      some ({ s with log := s.log ++ [entry] }.setTask t ts', opEv ++ ev)
  | .spawn w =>
    if w = t then none else
    let (ts', ev) := settle (P t) t ts
    let s1 := if (s.tasks w).phase = .unborn then s.setTask w (TState.start (P w)) else s
    some ({ s1 with log := s.log ++ [entry] }.setTask t ts', ev)
  | .stop w =>
    if w = t then none else
    let (ts', ev) := settle (P t) t ts
    let s1 := if (s.tasks w).phase = .done then s else s.setTask w { s.tasks w with stopReq := true }
    some ({ s1 with log := s.log ++ [entry] }.setTask t ts', ev)
  | .join w =>
    if (s.tasks w).phase = .done then
      let (ts', ev) := settle (P t) t ts
      some ({ s with log := s.log ++ [entry] }.setTask t ts', ev)
    else none

/-- one scheduling decision; `none`: not enabled in this state -/
def mstepE (P : Progs) (s : MSys) : Choice → Option (MSys × List Event)
  | .deliver b => some ({ s with inbox := s.inbox ++ [b] }, [])
  | .cancel t =>
    let ts := s.tasks t
    let dead : TState := { ts with phase := .done, todo := [], aborted := true, stopReq := false }
    match ts.phase with
    | .done => none
    | .waiting =>
      some ({ s with lock := { s.lock with waiters := s.lock.waiters.filter (· ≠ t) } }.setTask t dead, [.unwait t, .ended t])
    | .holding =>      -- `__aexit__` runs `release()`
      some ({ s with lock := { s.lock with holder := none } }.setTask t dead, [.rel t, .ended t])
    | .idle | .unborn => some (s.setTask t dead, [.ended t])
  | .run t =>
    let ts := s.tasks t
    if ts.stopReq then none else
    match ts.phase with
    | .unborn | .done => none
    | .waiting =>
      match s.lock.holder, s.lock.waiters with
      | none, w :: ws =>
        if w = t then some ({ s with lock := { holder := some t, waiters := ws } }.setTask t { ts with phase := .holding }, [.got t])
        else none
      | _, _ => none
    | .idle | .holding =>
      match ts.todo with
      | [] => let (ts', ev) := nextRound (P t) t ts; some (s.setTask t ts', ev)
      | a :: rest => exec P s t { ts with todo := rest } a

def mstep (P : Progs) (s : MSys) (c : Choice) : Option MSys :=
  (mstepE P s c).map fun r => { r.1 with events := s.events ++ r.2 }

/-- a whole schedule -/
def mrun (P : Progs) (s : MSys) : List Choice → Option MSys
  | [] => some s
  | c :: cs => match mstep P s c with
    | none => none
    | some s' => mrun P s' cs

/-- index of the first choice that is not enabled (for the harness) -/
def firstDisabled (P : Progs) (s : MSys) : List Choice → Nat → Option Nat
  | [], _ => none
  | c :: cs, i => match mstep P s c with
    | none => some i
    | some s' => firstDisabled P s' cs (i + 1)

/-! ### what is proved about programs -/

/-- lock bracketing of a list of await points: the transport is touched and the lock released only inside
    `acquire … release`, no nested acquire, task management only outside, and the list ends outside -/
def wfIn : Bool → List Act → Bool
  | inside, [] => !inside
  | false, .acquire :: r => wfIn true r
  | true, .acquire :: _ => false
  | true, .release :: r => wfIn false r
  | false, .release :: _ => false
  | inside, .io o :: r => (inside || (wireKind o).isNone) && wfIn inside r
  | false, .spawn _ :: r => wfIn false r
  | false, .stop _ :: r => wfIn false r
  | false, .join _ :: r => wfIn false r
  | true, .spawn _ :: _ => false
  | true, .stop _ :: _ => false
  | true, .join _ :: _ => false

/-- every round of every task is bracketed -/
def WF (P : Progs) : Prop := ∀ t n, wfIn false ((P t).round n).acts = true

/-- the result of the one request of a `Prog.request` caller, once it has returned / raised -/
def finished (ts : TState) : Bool := ts.phase == .done && !ts.aborted

/-- await points of round `n` of task `t` in the log, in order -/
def projRound (log : List (Tid × Nat × Act)) (t : Tid) (n : Nat) : List Act :=
  (log.filter fun e => e.1 == t && e.2.1 == n).map (·.2.2)

end Gallia.ClientMulti
