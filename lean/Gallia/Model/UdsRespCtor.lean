import Gallia.Model.UdsResp
/-
  C02, constructor side — every response class of `services/uds/core/service.py` can also be built from field
  values (`__init__`); gallia's own servers (virtual ECU, DB replay) do that, and `.pdu` of such an object is what
  goes on the wire and into the logs.

    * `Fields`     — one constructor call (the arguments of `__init__`, integers unbounded and signed as in Python);
    * `construct`  — `class → fields → Option Resp`: `some r` exactly when `__init__` accepts the values *and* `.pdu`
                     can be computed (a constructor that stores a value `struct.pack` / `int.to_bytes` later refuses
                     puts nothing on the wire: that is `none` as well).  The validity checks are the ones the
                     constructors make (`check_sub_function`, `check_data_identifier`, `check_range`, the `pack` /
                     `to_bytes` widths, `uds_memory_parameters`) plus - the oracle reading of the property - the ones
                     their own parser imposes on the resulting PDU (non-empty data records, at least one extended
                     data record, one record at most for the first / most-recent DTC reports);
    * `exposed`    — the constructor call `_from_pdu` makes for a decoded object (the attribute view);
    * `Fields.Canon` — calls in the form `_from_pdu` uses (one identifier, mapping form, explicit format bytes).

  Typed domain: enum-typed parameters (`UDSErrorCodes`, `DTCFormatIdentifier`) range over the members, `dict`
  parameters over association lists without repeated keys (a `{dtc: status}` list with a repeated key is no dict:
  `none`; the record-number mapping is not inspected for repetitions), `int | None` parameters whose class-level signature is
  `int` are never `None`.
-/
namespace Gallia.UdsResp
open Gallia

inductive Fields
  | neg (sid : Int) (nrc : Nat)                          -- NegativeResponse(request_service_id, response_code)
  | dsc (ty : Int) (rec : Bytes)                         -- (diagnostic_session_type, session_parameter_record)
  | ecuReset (ty : Int) (pdt : Option Int)               -- (reset_type, power_down_time)
  | secAccess (ty : Int) (seed : Bytes)                  -- (security_access_type, security_seed)
  | commCtrl (ty : Int)                                  -- (control_type)
  | testerPresent
  | ctrlDTC (ty : Int)                                   -- (dtc_setting_type)
  | rdbi (dids : List Int) (recs : List Bytes)           -- (data_identifiers, data_records)
  | rmba (rec : Bytes)                                   -- (data_record)
  | dddi (did : Option Int)                              -- (dynamically_defined_data_identifier)
  | wdbi (did : Int)                                     -- (data_identifier)
  | wmba (addr size : Int) (alfid : Option Int)          -- (memory_address, memory_size, address_and_length_format_identifier)
  | clearDTC
  | dtcCount (mask : Int) (fmt : Nat) (count : Int)      -- (dtc_status_availability_mask, dtc_format_identifier, dtc_count)
  | dtcListD (mask : Int) (recs : List (Int × Int))      -- (dtc_status_availability_mask, {dtc: status})
  | dtcListB (mask : Int) (raw : Bytes)                  -- (dtc_status_availability_mask, bytes)
  | dtcExtT (dtc status : Int) (recs : List (Int × Bytes)) -- ((dtc, status), {record number: record})
  | dtcExtB (raw : Bytes) (recs : List (Int × Bytes))    -- (bytes, {record number: record})
  | iocbi (did : Int) (rec : Bytes)                      -- (data_identifier, control_status_record)
  | routine (rid : Int) (rec : Bytes)                    -- (routine_identifier, routine_status_record)
  | upDownload (maxLen : Int) (lfid : Option Int)        -- (max_number_of_block_length, length_format_identifier)
  | transferData (ctr : Int) (rec : Bytes)               -- (block_sequence_counter, transfer_response_parameter_record)
  | transferExit (rec : Bytes)                           -- (transfer_response_parameter_record)
deriving DecidableEq, Repr

/-- `0 <= x <= 0xFF` (`pack("B")`, `check_range(.., 0, 0xFF)`) -/
def u8? (x : Int) : Option UInt8 := if 0 ≤ x ∧ x ≤ 255 then some (UInt8.ofNat x.toNat) else none
/-- `check_sub_function`: `0 <= x <= 0x7F` -/
def sub7? (x : Int) : Option UInt8 := if 0 ≤ x ∧ x ≤ 0x7F then some (UInt8.ofNat x.toNat) else none
/-- `0 <= x < bound` -/
def natBelow? (x : Int) (bound : Nat) : Option Nat := if 0 ≤ x ∧ x.toNat < bound then some x.toNat else none

/-- `max(1, ceil(n.bit_length() / 8))`: the minimal number of bytes `uds_memory_parameters` uses -/
def byteLen (n : Nat) : Nat := if n < 256 then 1 else byteLen (n / 256) + 1
termination_by n
decreasing_by omega

/-- `{dtc: status}` with every key / value in range → the record list -/
def dictRecs : List (Int × Int) → Option (List (Nat × UInt8))
  | [] => some []
  | (d, s) :: rest =>
    match natBelow? d 0x1000000, u8? s, dictRecs rest with
    | some d', some s', some l => some ((d', s') :: l)
    | _, _, _ => none

/-- the tail `{record number: record}` entries after the first, as they are concatenated by `.pdu` -/
def extTail : List (Int × Bytes) → Option Bytes
  | [] => some []
  | (n, d) :: rest =>
    match (if 0 ≤ n ∧ n ≤ 0xFD then some (UInt8.ofNat n.toNat) else none), extTail rest with
    | some n', some t => some (n' :: d ++ t)
    | _, _ => none

/-- further `(identifier, record)` pairs of a multi-identifier answer, concatenated -/
def rdbiTail : List Int → List Bytes → Option Bytes
  | [], [] => some []
  | d :: ds, r :: rs =>
    match natBelow? d 0x10000, rdbiTail ds rs with
    | some d', some t => if r ≠ [] then some (toBE d' 2 ++ r ++ t) else none
    | _, _ => none
  | _, _ => none

/-- the class's length rule applied to a DTC-and-status list of `n` records -/
def listFits (e : Entry) (n : Nat) : Bool :=
  match e.maxLen with
  | some m => 3 + 4 * n ≤ m
  | none => true

def subOf (e : Entry) : UInt8 := UInt8.ofNat (e.sub.getD 0)

def dtcExtBody (e : Entry) (dtc : Nat) (status : UInt8) : List (Int × Bytes) → Option Resp
  | [] => none                                 -- no record number: the class's own parser has no reading of the PDU
  | (n, d) :: rest =>
    if 0 ≤ n ∧ n ≤ 0xFD ∧ e.sub = some 6 then
      (extTail rest).map (fun t => .dtcExt dtc status (UInt8.ofNat n.toNat) (d ++ t))
    else none

/-- constructor + `.pdu` of the class of registry entry `e` -/
def constructE (e : Entry) : Fields → Option Resp
  | .neg sid nrc =>
    if e.kind = .neg ∧ nrc ∈ nrcTable then (u8? sid).map (fun s => .neg s (UInt8.ofNat nrc)) else none
  | .dsc ty rec => if e.kind = .dsc then (sub7? ty).map (fun t => .dsc t rec) else none
  | .ecuReset ty pdt =>
    if e.kind = .ecuReset then
      match sub7? ty, pdt with
      | some t, none => some (.ecuReset t none)
      | some t, some p => (u8? p).map (fun p' => .ecuReset t (some p'))
      | none, _ => none
    else none
  | .secAccess ty seed => if e.kind = .secAccess then (sub7? ty).map (fun t => .secAccess t seed) else none
  | .commCtrl ty => if e.kind = .commCtrl then (sub7? ty).map .commCtrl else none
  | .testerPresent => if e.kind = .testerPresent then some .testerPresent else none
  | .ctrlDTC ty => if e.kind = .ctrlDTC then (sub7? ty).map .ctrlDTC else none
  | .rdbi dids recs =>
    if e.kind = .rdbi then
      match dids, recs with
      | d :: ds, r :: rs =>
        match natBelow? d 0x10000, rdbiTail ds rs with
        | some d', some t => if r ≠ [] then some (.rdbi d' (r ++ t)) else none
        | _, _ => none
      | _, _ => none
    else none
  | .rmba rec => if e.kind = .rmba ∧ rec ≠ [] then some (.rmba rec) else none
  | .dddi did =>
    if e.kind = .dddi then
      match did with
      | none => if e.minLen ≤ 2 then some (.dddi (subOf e) none) else none
      | some d => (natBelow? d 0x10000).map (fun d' => .dddi (subOf e) (some d'))
    else none
  | .wdbi did => if e.kind = .wdbi then (natBelow? did 0x10000).map .wdbi else none
  | .wmba addr size alfid =>
    if e.kind = .wmba ∧ 0 ≤ addr ∧ 0 ≤ size then
      match alfid with
      | none =>
        if byteLen addr.toNat ≤ 15 ∧ byteLen size.toNat ≤ 15 then
          some (.wmba (UInt8.ofNat (byteLen size.toNat * 16 + byteLen addr.toNat)) addr.toNat size.toNat)
        else none
      | some x =>
        if 0 ≤ x ∧ x ≤ 255 ∧ x.toNat % 16 ≠ 0 ∧ x.toNat / 16 ≠ 0 ∧ addr.toNat < 256 ^ (x.toNat % 16) ∧
            size.toNat < 256 ^ (x.toNat / 16) then
          some (.wmba (UInt8.ofNat x.toNat) addr.toNat size.toNat)
        else none
    else none
  | .clearDTC => if e.kind = .clearDTC then some .clearDTC else none
  | .dtcCount mask fmt count =>
    if e.kind = .dtcCount ∧ fmt ∈ dtcFormatTable then
      match u8? mask, natBelow? count 0x10000 with
      | some m, some c => some (.dtcCount (subOf e) m (UInt8.ofNat fmt) c)
      | _, _ => none
    else none
  | .dtcListD mask recs =>
    if e.kind = .dtcList then
      match u8? mask, dictRecs recs with
      | some m, some l => if distinctKeys l ∧ listFits e l.length then some (.dtcList (subOf e) m l) else none
      | _, _ => none
    else none
  | .dtcListB mask raw =>
    if e.kind = .dtcList then
      match u8? mask, parseRecs raw with
      | some m, some l => if distinctKeys l ∧ listFits e l.length then some (.dtcList (subOf e) m l) else none
      | _, _ => none
    else none
  | .dtcExtT dtc status recs =>
    if e.kind = .dtcExt then
      match natBelow? dtc 0x1000000, u8? status with
      | some d, some s => dtcExtBody e d s recs
      | _, _ => none
    else none
  | .dtcExtB raw recs =>
    if e.kind = .dtcExt then
      match raw with
      | [a, b, c, s] => dtcExtBody e (fromBE [a, b, c]) s recs
      | _ => none
    else none
  | .iocbi did rec =>
    if e.kind = .iocbi ∧ rec ≠ [] then (natBelow? did 0x10000).map (fun d => .iocbi d rec) else none
  | .routine rid rec =>
    if e.kind = .routine then (natBelow? rid 0x10000).map (fun r => .routine (subOf e) r rec) else none
  | .upDownload maxLen lfid =>
    if e.kind = .upDownload ∧ 0 ≤ maxLen then
      match lfid with
      | none =>
        if byteLen maxLen.toNat ≤ 15 then
          some (.upDownload (UInt8.ofNat e.rsid) (UInt8.ofNat (byteLen maxLen.toNat * 16)) maxLen.toNat)
        else none
      | some x =>
        if 0 ≤ x ∧ x ≤ 0xF0 ∧ x.toNat % 16 = 0 ∧ x.toNat / 16 ≠ 0 ∧ maxLen.toNat < 256 ^ (x.toNat / 16) then
          some (.upDownload (UInt8.ofNat e.rsid) (UInt8.ofNat x.toNat) maxLen.toNat)
        else none
    else none
  | .transferData ctr rec => if e.kind = .transferData then (u8? ctr).map (fun c => .transferData c rec) else none
  | .transferExit rec => if e.kind = .transferExit then some (.transferExit rec) else none

/-- `construct : class → fields → Option Resp` -/
def construct (cls : String) (f : Fields) : Option Resp :=
  match registry.find? (fun e => e.cls == cls) with
  | some e => constructE e f
  | none => none

/-- the InputOutputControlByIdentifier convenience classes: `Cls(data_identifier, control_states)` puts their
    inputOutputControlParameter in front of the control states (checked against the regenerated table) -/
def convClasses : List (String × Nat) := [
  ("ReturnControlToECUResponse", 0), ("ResetToDefaultResponse", 1), ("FreezeCurrentStateResponse", 2),
  ("ShortTermAdjustmentResponse", 3)]

def constructConv (cls : String) (did : Int) (states : Bytes) : Option Resp :=
  match convClasses.find? (fun p => p.1 == cls) with
  | some (_, p) => construct "InputOutputControlByIdentifierResponse" (.iocbi did (UInt8.ofNat p :: states))
  | none => none

/-- the constructor call `_from_pdu` makes for a decoded object: its exposed attributes -/
def exposed : Resp → Option Fields
  | .neg sid nrc => some (.neg sid.toNat nrc.toNat)
  | .dsc ty rec => some (.dsc ty.toNat rec)
  | .ecuReset ty pdt => some (.ecuReset ty.toNat (pdt.map (fun p => (p.toNat : Int))))
  | .secAccess ty seed => some (.secAccess ty.toNat seed)
  | .commCtrl ty => some (.commCtrl ty.toNat)
  | .testerPresent => some .testerPresent
  | .ctrlDTC ty => some (.ctrlDTC ty.toNat)
  | .rdbi did rec => some (.rdbi [(did : Int)] [rec])
  | .rmba rec => some (.rmba rec)
  | .dddi _ did => some (.dddi (did.map (fun d => (d : Int))))
  | .wdbi did => some (.wdbi did)
  | .wmba alfid addr size => some (.wmba addr size (some alfid.toNat))
  | .clearDTC => some .clearDTC
  | .dtcCount _ mask fmt count => some (.dtcCount mask.toNat fmt.toNat count)
  | .dtcList _ mask recs => some (.dtcListD mask.toNat (recs.map fun p => ((p.1 : Int), (p.2.toNat : Int))))
  | .dtcExt dtc status recnum data => some (.dtcExtT dtc status.toNat [((recnum.toNat : Int), data)])
  | .iocbi did rec => some (.iocbi did rec)
  | .routine _ rid rec => some (.routine rid rec)
  | .upDownload _ lfid maxLen => some (.upDownload maxLen (some lfid.toNat))
  | .transferData ctr rec => some (.transferData ctr.toNat rec)
  | .transferExit rec => some (.transferExit rec)
  | .rawPos _ => none

/-- constructor calls in the form `_from_pdu` itself uses -/
def Fields.Canon : Fields → Prop
  | .rdbi dids recs => dids.length = 1 ∧ recs.length = 1
  | .wmba _ _ alfid => alfid ≠ none
  | .upDownload _ lfid => lfid ≠ none
  | .dtcListB _ _ => False
  | .dtcExtB _ _ => False
  | .dtcExtT _ _ recs => recs.length = 1
  | _ => True

/-- parameter lists of the constructors, per parser family: (name, type) as `inspect.signature` shows them -/
def kindParams : Kind → List (String × String)
  | .neg => [("request_service_id", "int"), ("response_code", "UDSErrorCodes")]
  | .dsc => [("diagnostic_session_type", "int"), ("session_parameter_record", "bytes")]
  | .ecuReset => [("reset_type", "int"), ("power_down_time", "int | None")]
  | .secAccess => [("security_access_type", "int"), ("security_seed", "bytes")]
  | .commCtrl => [("control_type", "int")]
  | .testerPresent => []
  | .ctrlDTC => [("dtc_setting_type", "int")]
  | .rdbi => [("data_identifiers", "int | Sequence[int]"), ("data_records", "bytes | Sequence[bytes]")]
  | .rmba => [("data_record", "bytes")]
  | .dddi => [("dynamically_defined_data_identifier", "int")]
  | .wdbi => [("data_identifier", "int")]
  | .wmba => [("memory_address", "int"), ("memory_size", "int"), ("address_and_length_format_identifier", "int | None")]
  | .clearDTC => []
  | .dtcCount => [("dtc_status_availability_mask", "int"), ("dtc_format_identifier", "DTCFormatIdentifier"), ("dtc_count", "int")]
  | .dtcList => [("dtc_status_availability_mask", "int"), ("dtc_and_status_record", "bytes | dict[int, int]")]
  | .dtcExt => [("dtc_and_status_record", "bytes | tuple[int, int]"), ("dtc_ext_data_records", "dict[int, bytes]")]
  | .iocbi => [("data_identifier", "int"), ("control_status_record", "bytes")]
  | .routine => [("routine_identifier", "int"), ("routine_status_record", "bytes")]
  | .upDownload => [("max_number_of_block_length", "int"), ("length_format_identifier", "int | None")]
  | .transferData => [("block_sequence_counter", "int"), ("transfer_response_parameter_record", "bytes")]
  | .transferExit => [("transfer_response_parameter_record", "bytes")]

/-- the one class whose signature differs from its family's: the optional identifier of clearDynamicallyDefinedDataIdentifier -/
def entryParams (e : Entry) : List (String × String) :=
  if e.kind = .dddi ∧ e.minLen ≤ 2 then [("dynamically_defined_data_identifier", "int | None")] else kindParams e.kind

def ctorSigRows : List (String × List (String × String)) := registry.map fun e => (e.cls, entryParams e)

end Gallia.UdsResp
