/-
  C08 - several pending readers on one connection at the moment of the loss.

  `DoIPConnection` and `HSFZConnection` hand frames from the reader task to consumers through an `asyncio.Queue`; the
  end of the stream is a queued marker (`None`) which every consumer that takes it puts back, so it wakes the next one.
  k tasks are blocked in `read_diag_request()` / `read_frame()` (each with its own caller timeout or none), started in
  list order at time 0.  At time `D` the peer delivers `n` diagnostic messages (numbered 0..n-1); later, at time `L`, the
  connection is lost (eof / reset / ack timeout closing it / local close) - or never (`none`: the peer stays silent).

  Queues and waiters are first-in first-out: message j goes to the j-th reader (in start order) that reads the queue the
  message is put in and whose timeout has not expired at D.
    doipShared  DoIPConnection(separate_diagnostic_message_queue=False): one queue, reads serialised by the mutex
    doipSep     DoIPConnection(separate_diagnostic_message_queue=True): diagnostic messages go to their own queue, which
                `read_diag_request` reads without the mutex; `read_frame` readers never see them
    hsfz        HSFZConnection: one queue, no mutex
  Core Lean only (linked into the c08 driver).
-/
namespace Gallia.LossPend

inductive Op where
  | diag | frame
  deriving DecidableEq, Repr

inductive Flavor where
  | doipShared | doipSep | hsfz
  deriving DecidableEq, Repr

structure Rd where
  op : Op
  tmo : Option Nat
  deriving DecidableEq, Repr

inductive Res where
  | data (i : Nat) | timeout | conn | blocked
  deriving DecidableEq, Repr

structure Outc where
  res : Res
  t : Nat
  deriving DecidableEq, Repr

/-- does a reader of this kind take diagnostic messages off the queue they are put in? -/
def eligible : Flavor → Op → Bool
  | .doipSep, .frame => false
  | _, _ => true

/-- the reader is still waiting at time `t` -/
def waitsAt (r : Rd) (t : Nat) : Bool :=
  match r.tmo with
  | none => true
  | some d => t < d

/-- how a reader that got no message ends: its own timeout, or the loss - whichever is first -/
def ending (r : Rd) (loss : Option Nat) : Outc :=
  match r.tmo, loss with
  | some d, some l => if d < l then ⟨.timeout, d⟩ else ⟨.conn, l⟩
  | some d, none => ⟨.timeout, d⟩
  | none, some l => ⟨.conn, l⟩
  | none, none => ⟨.blocked, 0⟩

/-- outcomes of the pending readers, in start order; `j` = number of the next message to hand out -/
def outcomes (fl : Flavor) (n D : Nat) (loss : Option Nat) : Nat → List Rd → List (Rd × Outc)
  | _, [] => []
  | j, r :: rs =>
    if eligible fl r.op && waitsAt r D && decide (j < n) then
      (r, ⟨.data j, D⟩) :: outcomes fl n D loss (j + 1) rs
    else
      (r, ending r loss) :: outcomes fl n D loss j rs

end Gallia.LossPend
