import Gallia.Model.ParseQuote
import Gallia.Model.Config
/-
  C20 — target URIs, host:port strings, integer notation and range expressions.

  This file is the *oracle* the property names: what a user-written integer, range expression, host:port string
  or target URI denotes.  Strings are `List Char` (`Str`, Unicode scalar values).  `int()` reads a text after
  mapping every non-ASCII Unicode space to ' ' and every Unicode decimal digit to its ASCII digit (`normChar`, the
  tables `uniSpaces` / `decZeros` are regenerated from `unicodedata` and checked against these copies); `str.isspace /
  strip / split` additionally know U+001C..U+001F (`isSpaceStr`).  Query parameters are percent-encoded
  (`Model/ParseQuote.lean`).

  Real code tied to it: `gallia.utils.auto_int / unravel / unravel_2d`, `gallia.command.config._process_ranges`,
  `gallia.net.split_host_port / join_host_port`, `gallia.transports.base.TargetURI` (`from_parts`, `hostname`, `port`,
  `path`, `qs_flat`), `DoIPConfig / HSFZConfig / ISOTPConfig`; every transport's `connect()` is in `Model/ParseTransport.lean`.
-/
namespace Gallia.Parse

/-! ## integers: `int(s, 0)` -/

/-- ASCII whitespace skipped by `int()` around the literal -/
def isWs (c : Char) : Bool :=
  c == ' ' || c == '\t' || c == '\n' || c == '\r' || c == Char.ofNat 11 || c == Char.ofNat 12

def trim (l : Str) : Str := ((l.dropWhile isWs).reverse.dropWhile isWs).reverse

def digitVal (c : Char) : Option Nat :=
  let n := c.toNat
  if 48 ≤ n ∧ n ≤ 57 then some (n - 48)
  else if 97 ≤ n ∧ n ≤ 102 then some (n - 87)
  else if 65 ≤ n ∧ n ≤ 70 then some (n - 55)
  else none

/-- digits of one base with single underscores between them; `prevUs` = the previous character was `_` -/
def parseDigits (base : Nat) (acc : Nat) (prevUs : Bool) : Str → Option Nat
  | [] => if prevUs then none else some acc
  | c :: cs =>
    if c = '_' then (if prevUs then none else parseDigits base acc true cs)
    else match digitVal c with
      | some d => if d < base then parseDigits base (acc * base + d) false cs else none
      | none => none

/-- at least one digit, no leading / trailing / doubled underscore -/
def parseBody (base : Nat) (cs : Str) : Option Nat :=
  match cs with
  | [] => none
  | c :: _ => if c = '_' then none else parseDigits base 0 false cs

def splitSign : Str → Bool × Str
  | c :: r => if c = '-' then (true, r) else if c = '+' then (false, r) else (false, c :: r)
  | [] => (false, [])

/-- one underscore is allowed directly after a base prefix -/
def dropUs : Str → Str
  | c :: r => if c = '_' then r else c :: r
  | [] => []

/-- the base-0 rule: `0x / 0o / 0b` prefixes (either case); otherwise decimal, and a decimal literal that starts
    with `0` must be zero (`010` is rejected, `00` and `0_0` are zero) -/
def parseMag (cs : Str) : Option Nat :=
  match cs with
  | '0' :: c :: r =>
    if c = 'x' ∨ c = 'X' then parseBody 16 (dropUs r)
    else if c = 'o' ∨ c = 'O' then parseBody 8 (dropUs r)
    else if c = 'b' ∨ c = 'B' then parseBody 2 (dropUs r)
    else match parseBody 10 cs with
      | some 0 => some 0
      | _ => none
  | _ => parseBody 10 cs

def applySign (neg : Bool) (n : Nat) : Int := if neg then -(n : Int) else (n : Int)

/-- `int(s, 0)` on a text whose non-ASCII characters have been normalised -/
def autoIntA (s : Str) : Option Int :=
  let (neg, m) := splitSign (trim s)
  (parseMag m).map (applySign neg)

/-! ### the Unicode edge of `int()` and of `str.isspace / strip / split`

  `PyLong_FromUnicodeObject` first runs `_PyUnicode_TransformDecimalAndSpaceToASCII`: every character < 128 is kept, every
  other character with `Py_UNICODE_ISSPACE` becomes ' ', every other character with a decimal value becomes that ASCII digit
  (anything else ends the literal with an invalid character).  So U+001C..U+001F, which `str.isspace()` accepts, are *not*
  skipped by `int()`, while U+0085, U+00A0, U+2028 ... are. -/

/-- non-ASCII code points with `str.isspace()` -/
def uniSpaces : List Nat :=
  [133, 160, 5760, 8192, 8193, 8194, 8195, 8196, 8197, 8198, 8199, 8200, 8201, 8202, 8232, 8233, 8239, 8287, 12288]

def isUniSpace (c : Char) : Bool := uniSpaces.contains c.toNat

/-- what `int()` skips around a literal -/
def isWsInt (c : Char) : Bool := isWs c || isUniSpace c

/-- `str.isspace()` of one character (= what `str.strip()` strips and `str.split()` splits at) -/
def isSpaceStr (c : Char) : Bool := isWs c || (28 ≤ c.toNat && c.toNat ≤ 31) || isUniSpace c

/-- the zero of every block of ten Unicode decimal digits -/
def decZeros : List Nat :=
  [48, 1632, 1776, 1984, 2406, 2534, 2662, 2790, 2918, 3046, 3174, 3302, 3430, 3558, 3664, 3792, 3872, 4160, 4240, 6112,
   6160, 6470, 6608, 6784, 6800, 6992, 7088, 7232, 7248, 42528, 43216, 43264, 43472, 43504, 43600, 44016, 65296, 66720,
   68912, 69734, 69872, 69942, 70096, 70384, 70736, 70864, 71248, 71360, 71472, 71904, 72016, 72784, 73040, 73120, 73552,
   92768, 92864, 93008, 120782, 120792, 120802, 120812, 120822, 123200, 123632, 124144, 125264, 130032]

/-- `unicodedata.decimal(c)` -/
def uniDigit (c : Char) : Option Nat :=
  (decZeros.find? fun z => z ≤ c.toNat && c.toNat < z + 10).map fun z => c.toNat - z

/-- `_PyUnicode_TransformDecimalAndSpaceToASCII`, per character -/
def normChar (c : Char) : Char :=
  if c.toNat < 128 then c
  else if isUniSpace c then ' '
  else match uniDigit c with
    | some d => Char.ofNat (48 + d)
    | none => c

/-- `int(s, 0)` = `gallia.utils.auto_int` -/
def autoIntL (s : Str) : Option Int := autoIntA (s.map normChar)

/-- the same literal written with the digits of another script (`z0` = the script's digit zero) -/
def toScript (z0 : Nat) (s : Str) : Str :=
  s.map fun c => if 48 ≤ c.toNat ∧ c.toNat ≤ 57 then Char.ofNat (z0 + (c.toNat - 48)) else c

def autoInt (s : String) : Option Int := autoIntL s.toList

/-! ### spelling an integer -/

inductive Base | dec | hex | oct | bin
  deriving DecidableEq, Repr

def Base.radix : Base → Nat
  | .dec => 10 | .hex => 16 | .oct => 8 | .bin => 2

/-- digits of `n` in base `b`, least significant first (always at least one digit) -/
def digitsLE (b : Nat) (n : Nat) : List Nat :=
  if n < b ∨ b < 2 then [n] else n % b :: digitsLE b (n / b)
termination_by n
decreasing_by exact Nat.div_lt_self (by omega) (by omega)

def digitChar (upper : Bool) (d : Nat) : Char :=
  if d < 10 then Char.ofNat (48 + d) else Char.ofNat ((if upper then 55 else 87) + d)

/-- insert `_` after the i-th character when `mask[i]` is set (never after the last one) -/
def groupUs : Str → List Bool → Str
  | [], _ => []
  | [c], _ => [c]
  | c :: c' :: cs, m => c :: ((if m.headD false then ['_'] else []) ++ groupUs (c' :: cs) m.tail)

/-- the notations a user may choose for one integer -/
structure Spelling where
  base : Base := .dec
  upper : Bool := false     -- upper-case prefix letter and hex digits
  plus : Bool := false      -- explicit `+` on non-negative numbers
  usP : Bool := false       -- underscore directly after the prefix (non-decimal only)
  zeros : Nat := 0          -- leading zeros (non-decimal only: `007` is not a base-0 literal)
  us : List Bool := []      -- digit grouping underscores
  wsL : Str := []           -- surrounding whitespace
  wsR : Str := []
  deriving DecidableEq, Repr

def Spelling.WF (sp : Spelling) : Prop := (∀ c ∈ sp.wsL, isWsInt c = true) ∧ (∀ c ∈ sp.wsR, isWsInt c = true)

def prefixOf (b : Base) (upper : Bool) : Str :=
  match b with
  | .dec => []
  | .hex => ['0', if upper then 'X' else 'x']
  | .oct => ['0', if upper then 'O' else 'o']
  | .bin => ['0', if upper then 'B' else 'b']

def digitStr (sp : Spelling) (n : Nat) : Str :=
  let ds := (digitsLE sp.base.radix n).reverse.map (digitChar sp.upper)
  let zs := if sp.base = .dec then [] else List.replicate sp.zeros '0'
  groupUs (zs ++ ds) sp.us

def spellNat (sp : Spelling) (n : Nat) : Str :=
  prefixOf sp.base sp.upper ++ (if sp.usP ∧ sp.base ≠ .dec then ['_'] else []) ++ digitStr sp n

def signStr (sp : Spelling) (z : Int) : Str := if z < 0 then ['-'] else if sp.plus then ['+'] else []

def spell (sp : Spelling) (z : Int) : Str := sp.wsL ++ signStr sp z ++ spellNat sp z.natAbs ++ sp.wsR

/-! ## ranges -/

inductive Elem
  | one (n : Nat)
  | range (a b : Nat)
  deriving DecidableEq, Repr

/-- the numbers one element lists; a reversed range lists nothing -/
def Elem.toList : Elem → List Nat
  | .one n => [n]
  | .range a b => List.range' a (b + 1 - a)

def Elem.Covers (e : Elem) (n : Nat) : Prop :=
  match e with
  | .one m => n = m
  | .range a b => a ≤ n ∧ n ≤ b

/-- union of two strictly increasing lists -/
def mergeU : List Nat → List Nat → List Nat
  | [], ys => ys
  | xs, [] => xs
  | x :: xs, y :: ys =>
    if x < y then x :: mergeU xs (y :: ys)
    else if y < x then y :: mergeU (x :: xs) ys
    else x :: mergeU xs ys
termination_by xs ys => xs.length + ys.length

/-- the sorted, duplicate-free union of everything listed -/
def denote (es : List Elem) : List Nat := es.foldr (fun e acc => mergeU e.toList acc) []

/-- split at every character satisfying `p` (like `str.split(sep)`: always at least one piece) -/
def splitOnP (p : Char → Bool) : Str → List Str
  | [] => [[]]
  | x :: xs =>
    if p x then [] :: splitOnP p xs
    else match splitOnP p xs with
      | q :: qs => (x :: q) :: qs
      | [] => [[x]]

def splitOnC (c : Char) (s : Str) : List Str := splitOnP (fun x => x == c) s

def joinC (c : Char) : List Str → Str
  | [] => []
  | [p] => p
  | p :: q :: ps => p ++ c :: joinC c (q :: ps)

def mapOpt {α β} (f : α → Option β) : List α → Option (List β)
  | [] => some []
  | a :: as => match f a, mapOpt f as with
    | some b, some bs => some (b :: bs)
    | _, _ => none

/-- a natural number in any base-0 notation (a `-` can never reach this: it is the range delimiter) -/
def parseNat (s : Str) : Option Nat :=
  match autoIntL s with
  | some z => if 0 ≤ z then some z.toNat else none
  | none => none

def parseElem (s : Str) : Option Elem :=
  if '-' ∈ s then
    match splitOnC '-' s with
    | [a, b] => match parseNat a, parseNat b with
      | some x, some y => some (.range x y)
      | _, _ => none
    | _ => none
  else (parseNat s).map .one

def parseElems (s : Str) : Option (List Elem) :=
  if s.all isSpaceStr then some [] else mapOpt parseElem (splitOnC ',' s)

/-- `gallia.utils.unravel` -/
def unravel (s : Str) : Option (List Nat) := (parseElems s).map denote

/-- one space-separated item of the two-dimensional form: `outer:inner`, or a bare `outer` meaning "all" -/
structure Item where
  outer : List Elem
  inner : Option (List Elem)
  deriving DecidableEq, Repr

def parseItem (s : Str) : Option Item :=
  if ':' ∈ s then
    match splitOnC ':' s with
    | [a, b] => match parseElems a, parseElems b with
      | some o, some i => some ⟨o, some i⟩
      | _, _ => none
    | _ => none
  else (parseElems s).map (⟨·, none⟩)

def parseItems (s : Str) : Option (List Item) := mapOpt parseItem (splitOnC ' ' s)

def Item.hasKey (it : Item) (k : Nat) : Bool := (denote it.outer).contains k

/-- what is recorded for outer key `k`: `none` (= all) as soon as one bare item lists the key, otherwise the sorted
    union of the inner lists of every item that lists the key -/
def valueOf (items : List Item) (k : Nat) : Option (List Nat) :=
  if (items.filter (·.hasKey k)).any (·.inner.isNone) then none
  else some (denote ((items.filter (·.hasKey k)).flatMap (fun it => it.inner.getD [])))

/-- every listed outer key with its value, keys in increasing order -/
def denote2d (items : List Item) : List (Nat × Option (List Nat)) :=
  (denote (items.flatMap (·.outer))).map fun k => (k, valueOf items k)

/-- `gallia.utils.unravel_2d` -/
def unravel2d (s : Str) : Option (List (Nat × Option (List Nat))) := (parseItems s).map denote2d

/-- `str.split()` -/
def wordsWs (s : Str) : List Str := (splitOnP isSpaceStr s).filter (· ≠ [])

/-- `command.config._process_ranges` on a string: whitespace separates elements as well -/
def processRanges (s : Str) : Option (List Nat) := unravel (joinC ',' (wordsWs s))

/-! ### rendering a range expression -/

inductive ElemSp
  | one (sp : Spelling)
  | range (a b : Spelling)

def renderElem : Elem → ElemSp → Str
  | .one n, .one sp => spell sp n
  | .one n, .range sp _ => spell sp n
  | .range a b, .range sa sb => spell sa a ++ '-' :: spell sb b
  | .range a b, .one sp => spell sp a ++ '-' :: spell sp b

abbrev SpElems := List (Elem × ElemSp)

def elemsOf (es : SpElems) : List Elem := es.map (·.1)

/-- elements with their chosen notations, comma separated -/
def render (es : SpElems) : Str := joinC ',' (es.map fun p => renderElem p.1 p.2)

structure ItemR where
  outer : SpElems
  inner : Option SpElems

def ItemR.item (r : ItemR) : Item := ⟨elemsOf r.outer, r.inner.map elemsOf⟩

def renderItem (r : ItemR) : Str :=
  render r.outer ++ (match r.inner with | some i => ':' :: render i | none => [])

/-- items separated by single spaces (an empty bare item stands for a doubled space) -/
def render2d (rs : List ItemR) : Str := joinC ' ' (rs.map renderItem)

/-! ## host:port -/

def decStr (n : Nat) : Str := (digitsLE 10 n).reverse.map (digitChar false)

def isDigit (c : Char) : Bool := 48 ≤ c.toNat && c.toNat ≤ 57

def decVal (s : Str) : Nat := s.foldl (fun acc c => acc * 10 + (c.toNat - 48)) 0

/-- port text after the colon: empty = no port; decimal 0..65535; anything else is an error (outer `none`) -/
def parsePort (s : Str) : Option (Option Nat) :=
  if s = [] then some none
  else if s.all isDigit then (if decVal s ≤ 65535 then some (some (decVal s)) else none)
  else none

def isUpperCh (c : Char) : Bool := 65 ≤ c.toNat && c.toNat ≤ 90
def isLowerCh (c : Char) : Bool := 97 ≤ c.toNat && c.toNat ≤ 122

/-- ASCII lower-casing (`str.lower()` on the ASCII alphabet) -/
def lowerCh (c : Char) : Char := if isUpperCh c then Char.ofNat (c.toNat + 32) else c

def lower (s : Str) : Str := s.map lowerCh

/-- host with IPv6 brackets when needed, then the optional port -/
def netlocOf (h : Str) (p : Option Nat) : Str :=
  (if ':' ∈ h then '[' :: h ++ [']'] else h) ++ (match p with | some p => ':' :: decStr p | none => [])

/-- `gallia.net.join_host_port` -/
def joinHostPort (h : Str) (p : Nat) : Str := netlocOf h (some p)

/-- host (lower-cased, as host names are case-insensitive) and optional port of a network location -/
def hostInfo (s : Str) : Option (Str × Option Nat) :=
  match s with
  | '[' :: r =>
    let h := r.takeWhile (· ≠ ']')
    match r.dropWhile (· ≠ ']') with
    | [']'] => some (lower h, none)
    | ']' :: ':' :: p => (parsePort p).map fun q => (lower h, q)
    | _ => none
  | _ =>
    match splitOnC ':' s with
    | [h] => some (lower h, none)
    | [h, p] => (parsePort p).map fun q => (lower h, q)
    | _ => none

/-- `gallia.net.split_host_port`: a bare IPv6 literal (two or more colons, no brackets) is a host without port -/
def splitHostPort (s : Str) (dflt : Option Nat := none) : Option (Str × Option Nat) :=
  if s.head? ≠ some '[' ∧ s.count ':' ≥ 2 then some (lower s, dflt)
  else (hostInfo s).map fun (h, p) => (h, match p with | some p => some p | none => dflt)

/-! ## target URIs -/

abbrev Args := List (Str × Str)

/-- `urlencode(args)`: `quote_plus(k) + '=' + quote_plus(v)` joined by `&` -/
def queryOf (args : Args) : Str := joinC '&' (args.map fun kv => quotePlus kv.1 ++ '=' :: quotePlus kv.2)

/-- `TargetURI.from_parts` (`urlunparse` with empty path) -/
def fromParts (scheme host : Str) (port : Option Nat) (args : Args) : Str :=
  scheme ++ [':', '/', '/'] ++ netlocOf host port ++ (if args = [] then [] else '?' :: queryOf args)

def splitFirst (c : Char) (s : Str) : Str × Option Str :=
  match s.dropWhile (· ≠ c) with
  | [] => (s, none)
  | _ :: r => (s.takeWhile (· ≠ c), some r)

/-- `parse_qsl(query)` (`keep_blank_values=False`, `strict_parsing=False`): pieces between `&`; a piece without `=` or
    with nothing after its first `=` is dropped; name and value are unquoted -/
def qsPairs (q : Str) : Args :=
  (splitOnC '&' q).filterMap fun piece =>
    match splitFirst '=' piece with
    | (k, some v) => if v = [] then none else some (unquotePlus k, unquotePlus v)
    | (_, none) => none

/-- `parse_qs` collects the values per name in order of first appearance; `qs_flat` keeps the first value of each -/
def firstWins : Args → Args
  | [] => []
  | kv :: r => kv :: (firstWins r).filter (·.1 ≠ kv.1)

/-- `TargetURI.qs_flat` of a query -/
def qsFlat (q : Str) : Args := firstWins (qsPairs q)

def isAlphaCh (c : Char) : Bool := isLowerCh c || isUpperCh c

def isSchemeChar (c : Char) : Bool :=
  isAlphaCh c || isDigit c || c == '+' || c == '-' || c == '.'

structure Uri where
  scheme : Str
  host : Option Str            -- `hostname` (`None` when empty)
  port : Option (Option Nat)   -- outer `none`: `.port` raises
  path : Str                   -- `.path` (not unquoted)
  args : Args
  deriving DecidableEq, Repr

def isDelim (c : Char) : Bool := c == '/' || c == '?' || c == '#'

/-- network location and what follows it; `scheme:rest` without `//` has no network location at all -/
def splitNetloc (rest0 : Str) : Str × Str :=
  match rest0 with
  | '/' :: '/' :: rest => (rest.takeWhile (fun c => !isDelim c), rest.dropWhile (fun c => !isDelim c))
  | _ => ([], rest0)

/-- the path: what follows the network location up to the first `?` or `#` -/
def pathPart (after : Str) : Str := after.takeWhile (fun c => c ≠ '?' ∧ c ≠ '#')

/-- the query between the first `?` and a `#` -/
def queryPart (after : Str) : Str :=
  match after.dropWhile (fun c => c ≠ '?' ∧ c ≠ '#') with
  | '?' :: q => q.takeWhile (· ≠ '#')
  | _ => []

/-- `hostname` (lower-cased, `None` when empty) and `port` (outer `none`: the accessor raises) of a netloc;
    without brackets the port starts at the *first* colon -/
def hostPortOf (netloc : Str) : Option Str × Option (Option Nat) :=
  let (host, port) : Str × Option (Option Nat) := match netloc with
    | '[' :: _ => (match hostInfo netloc with
        | some (h, p) => (h, some p)
        | none => (lower ((netloc.drop 1).takeWhile (· ≠ ']')), none))
    | _ => (match splitFirst ':' netloc with
        | (h, none) => (lower h, some none)
        | (h, some p) => (lower h, parsePort p))
  (if host = [] then none else some host, port)

/-- `urlsplit` first strips leading C0 control characters and spaces and removes every tab, CR and LF -/
def cleanUrl (s : Str) : Str :=
  (s.dropWhile fun c => c.toNat ≤ 32).filter fun c => c ≠ '\t' ∧ c ≠ '\r' ∧ c ≠ '\n'

/-- `TargetURI(raw)`: scheme, `hostname`, `port`, `path`, `qs_flat` (no userinfo in the model) -/
def parseUri (s0 : Str) : Option Uri :=
  let s := cleanUrl s0
  match splitFirst ':' s with
  | (sch, some rest0) =>
    if sch = [] ∨ !(sch.all isSchemeChar) ∨ !(sch.head?.any isAlphaCh) then none else
    let nl := splitNetloc rest0
    let hp := hostPortOf nl.1
    some ⟨lower sch, hp.1, hp.2, pathPart nl.2, qsFlat (queryPart nl.2)⟩
  | _ => none

/-! ## transport settings built from `qs_flat` -/

def lookupS (k : Str) (args : Args) : Option Str := (args.find? (·.1 = k)).map (·.2)

def kSrcAddr : Str := ['s', 'r', 'c', '_', 'a', 'd', 'd', 'r']
def kDstAddr : Str := ['d', 's', 't', '_', 'a', 'd', 'd', 'r']
def kTargetAddr : Str := ['t', 'a', 'r', 'g', 'e', 't', '_', 'a', 'd', 'd', 'r']
def kActivationType : Str := ['a', 'c', 't', 'i', 'v', 'a', 't', 'i', 'o', 'n', '_', 't', 'y', 'p', 'e']
def kProtocolVersion : Str := ['p', 'r', 'o', 't', 'o', 'c', 'o', 'l', '_', 'v', 'e', 'r', 's', 'i', 'o', 'n']
def kAckTimeout : Str := ['a', 'c', 'k', '_', 't', 'i', 'm', 'e', 'o', 'u', 't']
def kIsExtended : Str := ['i', 's', '_', 'e', 'x', 't', 'e', 'n', 'd', 'e', 'd']
def kIsFd : Str := ['i', 's', '_', 'f', 'd']
def kFrameTxtime : Str := ['f', 'r', 'a', 'm', 'e', '_', 't', 'x', 't', 'i', 'm', 'e']
def kExtAddress : Str := ['e', 'x', 't', '_', 'a', 'd', 'd', 'r', 'e', 's', 's']
def kRxExtAddress : Str := ['r', 'x', '_', 'e', 'x', 't', '_', 'a', 'd', 'd', 'r', 'e', 's', 's']
def kTxPadding : Str := ['t', 'x', '_', 'p', 'a', 'd', 'd', 'i', 'n', 'g']
def kRxPadding : Str := ['r', 'x', '_', 'p', 'a', 'd', 'd', 'i', 'n', 'g']
def kTxDl : Str := ['t', 'x', '_', 'd', 'l']

/-- a field validated by `auto_int`: absent / parsed / rejected -/
inductive Fld (α : Type)
  | absent
  | ok (v : α)
  | bad
  deriving DecidableEq, Repr

def fldWith {α} (f : Str → Option α) (k : Str) (args : Args) : Fld α :=
  match lookupS k args with
  | none => .absent
  | some v => match f v with
    | some z => .ok z
    | none => .bad

/-- `str.strip()`-like removal of the characters `isWsInt` at both ends (what pydantic-core's `trim()` removes) -/
def trimInt (l : Str) : Str := ((l.dropWhile isWsInt).reverse.dropWhile isWsInt).reverse

/-- plain pydantic `int` field given a string (lax mode): C18's `parseLaxInt` after trimming Unicode white space -/
def plainInt (s : Str) : Option Int := Gallia.Config.parseLaxInt (trimInt s)

/-- pydantic `bool` from a string -/
def boolVal (s : Str) : Option Bool :=
  let l := lower s
  if l ∈ [['1'], ['o', 'n'], ['t'], ['t', 'r', 'u', 'e'], ['y'], ['y', 'e', 's']] then some true
  else if l ∈ [['0'], ['o', 'f', 'f'], ['f'], ['f', 'a', 'l', 's', 'e'], ['n'], ['n', 'o']] then some false
  else none

def Fld.isBad {α} : Fld α → Bool | .bad => true | _ => false
def Fld.isOk {α} : Fld α → Bool | .ok _ => true | _ => false

structure DoIPCfg where
  src : Int
  tgt : Int
  act : Option Int    -- `none` = default
  ver : Option Int
  deriving DecidableEq, Repr

def Fld.opt {α} : Fld α → Option α | .ok v => some v | _ => none

/-- `DoIPConfig(**uri.qs_flat)`: `src_addr`, `target_addr` required; every field through `auto_int` -/
def doipConfig (args : Args) : Option DoIPCfg :=
  let a := fldWith autoIntL kActivationType args
  let v := fldWith autoIntL kProtocolVersion args
  match fldWith autoIntL kSrcAddr args, fldWith autoIntL kTargetAddr args with
  | .ok s, .ok t => if a.isBad ∨ v.isBad then none else some ⟨s, t, a.opt, v.opt⟩
  | _, _ => none

structure HSFZCfg where
  src : Int
  dst : Int
  ack : Option Int
  deriving DecidableEq, Repr

/-- `HSFZConfig(**uri.qs_flat)`: addresses through `auto_int`, `ack_timeout` a plain integer -/
def hsfzConfig (args : Args) : Option HSFZCfg :=
  let k := fldWith plainInt kAckTimeout args
  match fldWith autoIntL kSrcAddr args, fldWith autoIntL kDstAddr args with
  | .ok s, .ok d => if k.isBad then none else some ⟨s, d, k.opt⟩
  | _, _ => none

structure ISOTPCfg where
  src : Int
  dst : Int
  isExtended : Option Bool
  isFd : Option Bool
  frameTxtime : Option Int
  extAddress : Option Int
  rxExtAddress : Option Int
  txPadding : Option Int
  rxPadding : Option Int
  txDl : Option Int
  deriving DecidableEq, Repr

/-- `ISOTPConfig(**uri.qs_flat)` -/
def isotpConfig (args : Args) : Option ISOTPCfg :=
  let ie := fldWith boolVal kIsExtended args
  let fd := fldWith boolVal kIsFd args
  let ft := fldWith plainInt kFrameTxtime args
  let ea := fldWith autoIntL kExtAddress args
  let ra := fldWith autoIntL kRxExtAddress args
  let tp := fldWith autoIntL kTxPadding args
  let rp := fldWith autoIntL kRxPadding args
  let dl := fldWith plainInt kTxDl args
  match fldWith autoIntL kSrcAddr args, fldWith autoIntL kDstAddr args with
  | .ok s, .ok d =>
    if ie.isBad ∨ fd.isBad ∨ ft.isBad ∨ ea.isBad ∨ ra.isBad ∨ tp.isBad ∨ rp.isBad ∨ dl.isBad then none
    else some ⟨s, d, ie.opt, fd.opt, ft.opt, ea.opt, ra.opt, tp.opt, rp.opt, dl.opt⟩
  | _, _ => none

end Gallia.Parse
