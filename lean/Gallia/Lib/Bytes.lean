/-
  Shared byte-level definitions (core Lean only).
  `Bytes = List UInt8`, big-endian integers of a fixed width, hex text.
-/
namespace Gallia

abbrev Bytes := List UInt8

theorem List.revInd {α} {motive : List α → Prop} (nil : motive [])
    (snoc : ∀ (a : List α) (b : α), motive a → motive (a ++ [b])) : ∀ l, motive l := by
  intro l
  have : ∀ r : List α, motive r.reverse := by
    intro r; induction r with
    | nil => simpa using nil
    | cons x xs ih => simpa using snoc _ x ih
  simpa using this l.reverse

/-- big-endian value of a byte string (`int.from_bytes(bs, "big")`) -/
def fromBE (bs : Bytes) : Nat := bs.foldl (fun acc b => acc * 256 + b.toNat) 0

/-- `n.to_bytes(k, "big")` for `n < 256^k` (higher bits are dropped otherwise; callers guard) -/
def toBE (n : Nat) : Nat → Bytes
  | 0 => []
  | k+1 => toBE (n / 256) k ++ [UInt8.ofNat (n % 256)]

@[simp] theorem toBE_length (n k : Nat) : (toBE n k).length = k := by
  induction k generalizing n with
  | zero => simp [toBE]
  | succ k ih => simp [toBE, ih]

theorem fromBE_append_one (a : Bytes) (b : UInt8) : fromBE (a ++ [b]) = fromBE a * 256 + b.toNat := by
  simp [fromBE, List.foldl_append]

@[simp] theorem fromBE_nil : fromBE [] = 0 := rfl

theorem fromBE_toBE (n k : Nat) (h : n < 256 ^ k) : fromBE (toBE n k) = n := by
  induction k generalizing n with
  | zero => simp [toBE, fromBE] at *; omega
  | succ k ih =>
    have h1 : n / 256 < 256 ^ k := by
      rw [Nat.pow_succ] at h
      exact Nat.div_lt_of_lt_mul (by rw [Nat.mul_comm]; exact h)
    rw [toBE, fromBE_append_one, ih _ h1]
    have : n % 256 < 256 := Nat.mod_lt _ (by decide)
    simp [Nat.mod_eq_of_lt this]; omega

theorem fromBE_lt (bs : Bytes) : fromBE bs < 256 ^ bs.length := by
  induction bs using List.revInd with
  | nil => simp [fromBE]
  | snoc a b ih =>
    rw [fromBE_append_one]; simp [Nat.pow_succ]
    have := b.toNat_lt; omega

theorem toBE_fromBE (bs : Bytes) : toBE (fromBE bs) bs.length = bs := by
  induction bs using List.revInd with
  | nil => simp [fromBE, toBE]
  | snoc a b ih =>
    rw [fromBE_append_one]; simp [toBE]
    have hb := b.toNat_lt
    have h1 : (fromBE a * 256 + b.toNat) / 256 = fromBE a := by omega
    rw [h1]; exact ih

theorem toBE_fromBE' (bs : Bytes) (k : Nat) (h : bs.length = k) : toBE (fromBE bs) k = bs := by
  subst h; exact toBE_fromBE bs

/-- `toBE` is injective on values that fit -/
theorem toBE_inj {n m k : Nat} (hn : n < 256 ^ k) (hm : m < 256 ^ k) (h : toBE n k = toBE m k) : n = m := by
  have := congrArg fromBE h
  rwa [fromBE_toBE _ _ hn, fromBE_toBE _ _ hm] at this

/-! ### hex text (lower case, as `bytes.hex()` / `binascii.hexlify`) -/

def hexDigit (n : Nat) : Char :=
  if n < 10 then Char.ofNat (48 + n) else Char.ofNat (87 + n)

def hexByte (b : UInt8) : List Char := [hexDigit (b.toNat / 16), hexDigit (b.toNat % 16)]

def hexStr (bs : Bytes) : String := String.ofList (bs.flatMap hexByte)

def unhexDigit (c : Char) : Option Nat :=
  let n := c.toNat
  if 48 ≤ n ∧ n ≤ 57 then some (n - 48)
  else if 97 ≤ n ∧ n ≤ 102 then some (n - 87)
  else if 65 ≤ n ∧ n ≤ 70 then some (n - 55)
  else none

def unhexChars : List Char → Option Bytes
  | [] => some []
  | [_] => none
  | a :: b :: rest =>
    match unhexDigit a, unhexDigit b, unhexChars rest with
    | some x, some y, some r => some (UInt8.ofNat (x * 16 + y) :: r)
    | _, _, _ => none

def unhexStr (s : String) : Option Bytes := unhexChars s.toList

end Gallia
