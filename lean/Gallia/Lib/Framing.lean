import Gallia.Lib.Bytes
/-
  Generic stream framing.  A *cutter* removes one frame from the front of a buffer, or reports that the
  buffer does not yet hold a complete frame.  Two facts about a cutter are enough to make the result of
  parsing independent of how the byte stream was segmented:

  * `shrinks`  – a successful cut consumes at least one byte;
  * `mono`     – once a frame can be cut from `a`, exactly the same frame is cut from `a ++ b`
                 (the cutter only ever looks at a prefix).

  `parseAll_append` (one split) and `feed_chunks` (any list of chunks) are proved once here and instantiated
  by the line, HSFZ and DoIP framers.
-/
namespace Gallia.Framing
open Gallia

structure Cutter (F : Type) where
  cut : Bytes → Option (F × Bytes)
  shrinks : ∀ {buf f rest}, cut buf = some (f, rest) → rest.length < buf.length
  mono : ∀ {a f rest} (b : Bytes), cut a = some (f, rest) → cut (a ++ b) = some (f, rest ++ b)

variable {F : Type}

/-- cut frames off the front for as long as complete frames are there; return them and the leftover -/
def parseAll (c : Cutter F) (buf : Bytes) : List F × Bytes :=
  match h : c.cut buf with
  | none => ([], buf)
  | some (f, rest) =>
    have : rest.length < buf.length := c.shrinks h
    let r := parseAll c rest
    (f :: r.1, r.2)
termination_by buf.length

theorem parseAll_none (c : Cutter F) {buf} (h : c.cut buf = none) : parseAll c buf = ([], buf) := by
  rw [parseAll.eq_def]; split <;> simp_all

theorem parseAll_some (c : Cutter F) {buf f rest} (h : c.cut buf = some (f, rest)) :
    parseAll c buf = (f :: (parseAll c rest).1, (parseAll c rest).2) := by
  rw [parseAll.eq_def]; split
  · simp_all
  · rename_i f' rest' h'; rw [h] at h'; cases h'; rfl

/-- the leftover of `parseAll` holds no complete frame -/
theorem parseAll_leftover (c : Cutter F) (buf : Bytes) : c.cut (parseAll c buf).2 = none := by
  generalize hn : buf.length = n
  induction n using Nat.strongRecOn generalizing buf with
  | _ n ih =>
    cases h : c.cut buf with
    | none => simp [parseAll_none c h, h]
    | some p =>
      obtain ⟨f, rest⟩ := p
      rw [parseAll_some c h]
      exact ih _ (by have := c.shrinks h; omega) rest rfl

/-- one split: feeding `a` and then `b` (keeping the leftover in between) = feeding `a ++ b` -/
theorem parseAll_append (c : Cutter F) (a b : Bytes) :
    parseAll c (a ++ b) =
      ((parseAll c a).1 ++ (parseAll c ((parseAll c a).2 ++ b)).1,
       (parseAll c ((parseAll c a).2 ++ b)).2) := by
  generalize hn : a.length = n
  induction n using Nat.strongRecOn generalizing a with
  | _ n ih =>
    cases h : c.cut a with
    | none => simp [parseAll_none c h]
    | some p =>
      obtain ⟨f, rest⟩ := p
      have hl := c.shrinks h
      rw [parseAll_some c (c.mono b h), parseAll_some c h, ih _ (by omega) rest rfl]
      simp

/-- streaming reader state: frames delivered so far and the buffered incomplete tail -/
def feed (c : Cutter F) (st : List F × Bytes) (chunk : Bytes) : List F × Bytes :=
  let r := parseAll c (st.2 ++ chunk)
  (st.1 ++ r.1, r.2)

/-- any segmentation: feeding the chunks one by one = parsing their concatenation at once
    (the buffered tail of a reader never holds a complete frame: `hbuf`) -/
theorem feed_chunks (c : Cutter F) (chunks : List Bytes) (done : List F) (buf : Bytes)
    (hbuf : c.cut buf = none) :
    chunks.foldl (feed c) (done, buf) =
      (done ++ (parseAll c (buf ++ chunks.flatten)).1, (parseAll c (buf ++ chunks.flatten)).2) := by
  induction chunks generalizing done buf with
  | nil => simp [parseAll_none c hbuf]
  | cons x xs ih =>
    simp only [List.foldl_cons, feed, List.flatten_cons]
    rw [ih _ _ (parseAll_leftover c _), ← List.append_assoc buf x, parseAll_append c (buf ++ x) xs.flatten]
    simp [List.append_assoc]

/-- corollary in the form used by the transports: two segmentations of the same stream agree -/
theorem segmentation_independent (c : Cutter F) (xs ys : List Bytes) (h : xs.flatten = ys.flatten) :
    xs.foldl (feed c) ([], []) = ys.foldl (feed c) ([], []) := by
  have h0 : c.cut [] = none := by
    cases h : c.cut [] with
    | none => rfl
    | some p => have := c.shrinks (f := p.1) (rest := p.2) h; simp at this
  rw [feed_chunks _ _ _ _ h0, feed_chunks _ _ _ _ h0, h]

/-- parsing the concatenation of encoded frames followed by a tail holding no complete frame
    returns exactly those frames and that tail, provided `cut` inverts `enc` -/
theorem parseAll_encodeAll (c : Cutter F) (enc : F → Bytes) (ok : F → Prop)
    (inv : ∀ f rest, ok f → c.cut (enc f ++ rest) = some (f, rest))
    (fs : List F) (tail : Bytes) (hok : ∀ f ∈ fs, ok f) (ht : c.cut tail = none) :
    parseAll c ((fs.map enc).flatten ++ tail) = (fs, tail) := by
  induction fs with
  | nil => simpa using parseAll_none c ht
  | cons f fs ih =>
    have h1 := inv f ((fs.map enc).flatten ++ tail) (hok f (by simp))
    simp only [List.map_cons, List.flatten_cons, List.append_assoc]
    rw [parseAll_some c h1, ih (fun g hg => hok g (by simp [hg]))]

end Gallia.Framing
