import Gallia.Lib.Bytes
/-
  Line protocol helpers for the model drivers: one request per input line, one reply per output line.
  Tokens are separated by single spaces; byte strings travel as lower-case hex, `-` is the empty string.
-/
namespace Gallia.Proto
open Gallia

def hexOrDash (bs : Bytes) : String := if bs.isEmpty then "-" else hexStr bs

def parseHex (s : String) : Option Bytes := if s == "-" then some [] else unhexStr s

def words (line : String) : List String :=
  (line.trimAscii.toString.splitOn " ").filter (· ≠ "")

def showOptNat : Option Nat → String
  | none => "none"
  | some n => toString n

def joinSp (xs : List String) : String := " ".intercalate xs

def hexList (xs : List Bytes) : String :=
  if xs.isEmpty then "[]" else ",".intercalate (xs.map hexOrDash)

/-- run `step` on every line of stdin until EOF, printing one output line per input line -/
partial def loopLines (step : String → String) : IO Unit := do
  let stdin ← IO.getStdin
  let stdout ← IO.getStdout
  let rec go : IO Unit := do
    let line ← stdin.getLine
    if line.isEmpty then return ()
    stdout.putStrLn (step line)
    go
  go
  stdout.flush

/-- stateful variant -/
partial def loopState {σ} (init : σ) (step : σ → String → σ × String) : IO Unit := do
  let stdin ← IO.getStdin
  let stdout ← IO.getStdout
  let rec go (s : σ) : IO Unit := do
    let line ← stdin.getLine
    if line.isEmpty then return ()
    let (s', out) := step s line
    stdout.putStrLn out
    go s'
  go init
  stdout.flush

end Gallia.Proto
